#!/usr/bin/env python3
"""Re-runs checks against kept seeded changes after the checks were strengthened.

usage: reeval.py <seeded-dir-name>:<check>[,<check>...] ...
For each item: git -C /repo apply seeded/<name>/patch.diff; bin/check <check> quick; git -C /repo checkout -- .
The verdict is appended to seeded/<name>/meta.json under "rechecks" and detected_by / inconclusive_in are
updated (the first verdict stays in checks_run).
"""
import json, os, subprocess, sys, time

def run_check(prop):
    t0 = time.time()
    r = subprocess.run(["/verif/bin/check", prop, "quick"], cwd="/verif", capture_output=True, text=True)
    lines = [l for l in r.stdout.splitlines() if l.startswith(("VIOLATION", "INCONCLUSIVE", "KNOWN"))]
    return {"check": prop, "exit": r.returncode, "wall_s": round(time.time() - t0, 1),
            "violations": [l[:300] for l in lines if l.startswith("VIOLATION")][:4],
            "inconclusive": [l[:300] for l in lines if l.startswith("INCONCLUSIVE")][:3]}

def main():
    for item in sys.argv[1:]:
        name, checks = item.split(":")
        d = "/verif/seeded/" + name
        st = subprocess.run(["git", "-C", "/repo", "status", "--short"], capture_output=True, text=True).stdout.strip()
        if st:
            print("refusing: /repo is not clean:", st[:200]); sys.exit(2)
        r = subprocess.run(["git", "-C", "/repo", "apply", os.path.join(d, "patch.diff")], capture_output=True, text=True)
        if r.returncode != 0:
            print(name, "patch does not apply:", r.stderr[-200:]); continue
        runs = []
        try:
            for c in checks.split(","):
                runs.append(run_check(c))
                if runs[-1]["exit"] == 1:
                    break
        finally:
            subprocess.run(["git", "-C", "/repo", "checkout", "--", "."])
        mp = os.path.join(d, "meta.json")
        meta = json.load(open(mp))
        meta.setdefault("rechecks", []).append({"after": "checks strengthened", "runs": runs})
        det = [x["check"] for x in runs if x["exit"] == 1]
        inc = [x["check"] for x in runs if x["exit"] == 2]
        if det:
            meta["detected_by"] = sorted(set(meta.get("detected_by", []) + det))
            meta["inconclusive_in"] = [c for c in meta.get("inconclusive_in", []) if c not in det]
        elif inc:
            meta["inconclusive_in"] = sorted(set(meta.get("inconclusive_in", []) + inc))
        json.dump(meta, open(mp, "w"), indent=1)
        print(name, "detected_by", det, "inconclusive", inc, [(x["check"], x["wall_s"]) for x in runs], flush=True)

if __name__ == "__main__":
    main()

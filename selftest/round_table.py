#!/usr/bin/env python3
"""Prints a markdown table of the seeded changes of one round (suffix, e.g. r6) from seeded/*/meta.json."""
import json, glob, os, re, sys
suffix = sys.argv[1]
V = os.path.dirname(os.path.dirname(os.path.abspath(__file__)))
print("| Seeded change | Change (agent's words, shortened) | Verdict |\n|---|---|---|")
for d in sorted(glob.glob(os.path.join(V, "seeded", "*-%s[ab]" % suffix))):
    m = json.load(open(os.path.join(d, "meta.json")))
    n = " ".join((m.get("notes") or "").split())
    mm = re.search(r"Change:?\s*(.*?)(Why it breaks|$)", n)
    what = (mm.group(1) if mm else n)[:200].replace("|", "/")
    det, inc = m.get("detected_by") or [], m.get("inconclusive_in") or []
    first = [r["check"] for r in m.get("checks_run", []) if r["exit"] == 1]
    if det and first:
        v = "caught by " + ", ".join(det)
    elif det:
        v = "caught by %s after strengthening / with a related check (first verdict: %s)" % (", ".join(det), "inconclusive" if inc or any(r["exit"] == 2 for r in m.get("checks_run", [])) else "missed")
    elif inc:
        v = "not caught: INCONCLUSIVE in " + ", ".join(inc)
    elif not m.get("checks_run"):
        v = "kept and confirmed; not evaluated before the session ended"
    else:
        v = "**missed** (ran: %s)" % ", ".join(r["check"] for r in m.get("checks_run", []))
    print("| %s | %s | %s |" % (os.path.basename(d), what, v))

#!/usr/bin/env python3
"""Evaluates seeded changes produced by independent sub-agents.

For each /tmp/mut/<ID>.out/<v>/: (1) confirm in the scratch worktree /tmp/mut/<ID> that the change builds,
the pinned suite passes, the demonstration fails with it and passes without it; (2) apply it to /repo, run the
property's check (and related checks when the own check misses), undo it; (3) store everything under
/verif/seeded/<ID>-<v>/ with meta.json.
"""
import json, os, subprocess, sys, shutil, re, time
ROOT = os.environ.get("MUT_ROOT", "/tmp/mut")
SUFFIX = os.environ.get("MUT_SUFFIX", "")
ENV = dict(os.environ, GOFLAGS="-mod=mod", GOPROXY="off", GOSUMDB="off", GOTOOLCHAIN="local")
REL = {"app": ["C19", "C10", "C09"], "app/upgrades": ["C19"], "x/aol/types": ["C16", "C14", "C02", "C08", "C01", "C18"], "x/aol/keeper": ["C01", "C02", "C13", "C10", "C08", "C17"], "x/aol": ["C08"],
       "x/did/types": ["C16", "C17", "C11", "C03", "C14", "C20", "C08"], "x/did/keeper": ["C03", "C04", "C05", "C10", "C11", "C08"], "x/did": ["C08", "C05"],
       "x/pnft/types": ["C12", "C06", "C08", "C16", "C14"], "x/pnft/keeper": ["C06", "C12", "C09", "C08"], "x/pnft": ["C08"],
       "x/burn": ["C07", "C10", "C09"], "x/burn/keeper": ["C07", "C10", "C09"], "types/compkey": ["C18", "C01", "C13"], "x/did/client/crypto": ["C17", "C20"]}

def sh(cmd, cwd, timeout=3600):
    r = subprocess.run(cmd, cwd=cwd, env=ENV, shell=True, capture_output=True, text=True, timeout=timeout)
    return r.returncode, (r.stdout + r.stderr)

def confirm(ID, v, out):
    wt = "%s/%s" % (ROOT, ID)
    d = "%s/%s.out/%s" % (ROOT, ID, v)
    demo_path = open(os.path.join(d, "demo_path.txt")).read().strip()
    sh("git checkout -- . && git clean -fdq", wt)
    rc, o = sh("git apply %s/patch.diff" % d, wt)
    if rc != 0:
        return False, "patch does not apply: " + o[-300:]
    rc, o = sh("go build ./...", wt)
    if rc != 0:
        return False, "does not build: " + o[-300:]
    rc, o = sh("go test -vet=off -count=1 ./... 2>&1 | grep -v 'no test files'", wt)
    if "FAIL" in o:
        return False, "existing suite fails with the change: " + o[-300:]
    shutil.copy(os.path.join(d, "demo_test.go"), os.path.join(wt, demo_path))
    pkg = "./" + os.path.dirname(demo_path)
    rc1, o1 = sh("go test -vet=off -count=1 %s" % pkg, wt)
    sh("git checkout -- .", wt)  # undo the source change, keep the demo
    rc2, o2 = sh("go test -vet=off -count=1 %s" % pkg, wt)
    sh("git checkout -- . && git clean -fdq", wt)
    if rc1 == 0:
        return False, "demonstration passes with the change"
    if rc2 != 0:
        return False, "demonstration fails without the change: " + o2[-300:]
    return True, "builds; pinned suite passes with the change; demonstration fails with it (%s) and passes without it" % pkg

def run_check(prop):
    t0 = time.time()
    r = subprocess.run(["/verif/bin/check", prop, "quick"], cwd="/verif", capture_output=True, text=True)
    lines = [l for l in r.stdout.splitlines() if l.startswith(("VIOLATION", "INCONCLUSIVE", "KNOWN"))]
    return {"check": prop, "exit": r.returncode, "wall_s": round(time.time() - t0, 1),
            "violations": [l[:300] for l in lines if l.startswith("VIOLATION")][:4],
            "inconclusive": [l[:300] for l in lines if l.startswith("INCONCLUSIVE")][:3]}

def main():
    todo = sys.argv[1:]
    for item in todo:
        ID, v = item.split("/")
        d = "%s/%s.out/%s" % (ROOT, ID, v)
        if not os.path.exists(os.path.join(d, "patch.diff")):
            print(item, "missing"); continue
        dest = "/verif/seeded/%s-%s%s" % (ID, SUFFIX, v)
        cj = os.path.join(d, "confirm.json")
        if os.environ.get("MUT_CONFIRM_ONLY"):
            ok, why = confirm(ID, v, d)
            json.dump({"ok": ok, "why": why}, open(cj, "w"))
            print(item, "confirm", ok, why[:200]); continue
        if os.path.exists(cj):
            c = json.load(open(cj)); ok, why = c["ok"], c["why"]
        else:
            ok, why = confirm(ID, v, d)
        meta = {"property": ID, "variant": v, "confirmed": ok, "confirmation": why,
                "notes": open(os.path.join(d, "notes.txt")).read() if os.path.exists(os.path.join(d, "notes.txt")) else ""}
        if not ok:
            print(item, "NOT CONFIRMED:", why)
            os.makedirs(dest, exist_ok=True)
            json.dump(meta, open(os.path.join(dest, "meta.json"), "w"), indent=1)
            continue
        patch = open(os.path.join(d, "patch.diff")).read()
        files = re.findall(r"^\+\+\+ b/(\S+)", patch, re.M)
        rc, o = sh("git apply %s/patch.diff" % d, "/repo")
        if rc != 0:
            meta["applies_to_repo_head"] = False
            print(item, "does not apply to /repo HEAD:", o[-200:])
        else:
            runs = []
            try:
                cands = [ID]
                for f in files:
                    for k, vs in REL.items():
                        if f.startswith(k + "/") and (os.path.dirname(f) == k or k == "app/upgrades"):
                            cands += [c for c in vs if c not in cands]
                detected = False
                for c in cands:
                    if not os.path.exists("/verif/checks/%s.json" % c):
                        continue
                    res = run_check(c)
                    runs.append(res)
                    if res["exit"] == 1:
                        detected = True
                        if c == ID or len(runs) >= 2:
                            break
                    if len(runs) >= int(os.environ.get("MUT_MAXRUNS", "5")):
                        break
                meta["checks_run"] = runs
                meta["detected_by"] = [r["check"] for r in runs if r["exit"] == 1]
                meta["inconclusive_in"] = [r["check"] for r in runs if r["exit"] == 2]
            finally:
                sh("git checkout -- .", "/repo")
            print(item, "detected_by", meta.get("detected_by"), "inconclusive", meta.get("inconclusive_in"), [(r["check"], r["wall_s"]) for r in runs])
        os.makedirs(dest, exist_ok=True)
        shutil.copy(os.path.join(d, "patch.diff"), dest)
        shutil.copy(os.path.join(d, "demo_test.go"), os.path.join(dest, "demo_test.go.txt"))
        shutil.copy(os.path.join(d, "demo_path.txt"), dest)
        meta["files_changed"] = files
        meta["what_i_ran"] = "selftest/eval_mutants.py: scratch worktree confirmation, then `git -C /repo apply patch.diff; bin/check <id> quick; git -C /repo checkout -- .`"
        json.dump(meta, open(os.path.join(dest, "meta.json"), "w"), indent=1)

if __name__ == "__main__":
    main()

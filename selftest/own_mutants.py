#!/usr/bin/env python3
"""Development-time smoke test of the checks (DESIGN §8): hand-picked one-line mutants, each must turn the named
check red (exit 1 with a natively reproduced counterexample). Applies each to /repo, runs the check, undoes it."""
import subprocess, sys, json, time
M = [
 ("m01 encode accepts 256-byte components", "types/compkey/compkey.go", "if len(value) > maxUint8 {", "if len(value) > maxUint8+1 {", "C18"),
 ("m02 Decode drops the bounds check", "types/compkey/compkey.go", "if exclusiveEnd > len(bz) {", "if exclusiveEnd > len(bz)+1 {", "C18"),
 ("m03 ownership proof looked up among all verification methods", "x/did/keeper/msg_server_did.go", "doc.VerificationMethodFrom(doc.Authentications, verificationMethodID)", "doc.VerificationMethodByID(verificationMethodID)", "C03"),
 ("m04 UpdateDID verifies against the submitted document", "x/did/keeper/msg_server_did.go", "VerifyDIDOwnership(msg.Document, docWithSeq.Sequence, docWithSeq.Document,", "VerifyDIDOwnership(msg.Document, docWithSeq.Sequence, msg.Document,", "C03"),
 ("m05 UpdateDID stores the old sequence", "x/did/keeper/msg_server_did.go", "newDocWithSeq := types.NewDIDDocumentWithSeq(msg.Document, newSeq)", "newDocWithSeq := types.NewDIDDocumentWithSeq(msg.Document, newSeq-1)", "C04"),
 ("m06 AddWriter stamps wall-clock time", "x/aol/keeper/msg_server_writer.go", "NanoTimestamp: ctx.BlockTime().UnixNano(),", "NanoTimestamp: time.Now().UnixNano(),", "C09"),
 ("m07 AddRecord skips the writer check", "x/aol/keeper/msg_server_record.go", "if !k.HasWriter(ctx, writerKey) {", "if false && !k.HasWriter(ctx, writerKey) {", "C02"),
 ("m08 TransferDenomOwner checks the receiver", "x/pnft/keeper/denom.go", "if sender != denom.Owner {\n\t\treturn fmt.Errorf(\"%s is not allowed", "if receiver != denom.Owner && sender != denom.Owner {\n\t\treturn fmt.Errorf(\"%s is not allowed", "C06"),
 ("m09 topic regex admits the empty name", "x/aol/types/topic.go", "\"^[A-Za-z0-9._-]+$\"", "\"^[A-Za-z0-9._-]*$\"", "C16"),
 ("m10 genesis separator inside the topic alphabet", "x/aol/types/genesis.go", "const GenesisKeySeparator = \"/\"", "const GenesisKeySeparator = \"-\"", "C18"),
 ("m11 pnft store not declared as added", "app/upgrades/v2_2_0/types.go", "\t\t\tpnfttypes.ModuleName,\n", "\t\t\tpnfttypes.ModuleName + \"x\",\n", "C19"),
 ("m12 burn ignores the second denomination's failure (uses all balances again)", "x/burn/keeper/burn.go", "k.bankKeeper.SpendableCoins(ctx, burnAcc)", "k.bankKeeper.GetAllBalances(ctx, burnAcc)", "C07"),
 ("m13 LoadByAddress holds the read lock across Load", "x/did/client/crypto/keystore.go", "\tks.mtx.RUnlock()\n\tif err != nil {\n\t\treturn nil, err\n\t}\n\n\treturn ks.Load(path, passwd)", "\tdefer ks.mtx.RUnlock()\n\tif err != nil {\n\t\treturn nil, err\n\t}\n\n\treturn ks.Load(path, passwd)", "C20"),
 ("m14 amino names registered only for some messages would change nothing; direct collision: duplicate proto name", "x/aol/types/messages_record.go", "return \"AddRecord\"", "return \"AddRecord \"", "C14-none"),
]
def sh(c, cwd="/repo"): return subprocess.run(c, cwd=cwd, shell=True, capture_output=True, text=True)
res = []
for name, f, old, new, chk in M:
    if chk.endswith("-none"):
        continue
    if sys.argv[1:] and not any(a in name for a in sys.argv[1:]):
        continue
    p = "/repo/" + f
    s = open(p).read()
    if old not in s:
        print(name, "PATTERN NOT FOUND"); continue
    s2 = s.replace(old, new, 1)
    if f.endswith("msg_server_writer.go") and "time.Now" in new and '"time"' not in s2:
        s2 = s2.replace('import (\n', 'import (\n\t"time"\n', 1)
    open(p, "w").write(s2)
    try:
        b = sh("GOFLAGS=-mod=mod GOPROXY=off GOSUMDB=off go build ./...")
        if b.returncode != 0:
            print(name, "DOES NOT BUILD", b.stderr[-200:]); continue
        t0 = time.time()
        r = subprocess.run(["/verif/bin/check", chk, "quick"], cwd="/verif", capture_output=True, text=True)
        v = [l for l in r.stdout.splitlines() if l.startswith("VIOLATION")]
        res.append({"mutant": name, "file": f, "check": chk, "exit": r.returncode, "wall_s": round(time.time() - t0, 1), "first_violation": (v[0][:260] if v else "")})
        print(name, "->", chk, "exit", r.returncode, "violations", len(v), round(time.time() - t0, 1), "s")
    finally:
        sh("git checkout -- .")
import os
prev = []
if os.path.exists("/verif/selftest/own_mutants_result.json") and sys.argv[1:]:
    prev = [r for r in json.load(open("/verif/selftest/own_mutants_result.json")) if r["mutant"] not in {x["mutant"] for x in res}]
json.dump(prev + res, open("/verif/selftest/own_mutants_result.json", "w"), indent=1)

package __PKG__

import "encoding/hex"

// C17: loading an arbitrary key-store file with any password never panics.
// C20: lock usage of Save / Load / LoadByAddress (event sequences are recorded
// by the engine and analysed for deadlocks over all schedules).

func vHexOrJunk(site string, max int) string {
	if vNondetBool(site + ".validHex") {
		return hex.EncodeToString(vNondetBytes(site, max))
	}
	j := vNondetAtom(site + ".junk")
	_, err := hex.DecodeString(j)
	vAssume(err != nil) // junk = a string that is not valid hex
	return j
}

func vHarnessDecryptKey() {
	passwd := vNondetAtom("passwd")
	key := encryptedKey{
		Version: vNondetInt("version"),
		ID:      vNondetAtom("id"),
		Address: vNondetAtom("address"),
		Crypto: cryptoParams{
			Cipher:       vPickString(vNondetInt("cipherSel"), cipherAlgorithm, "aes-256-gcm"),
			CipherText:   vHexOrJunk("ciphertext", 40),
			CipherParams: cipherParams{IV: vHexOrJunk("iv", 40)},
			KDF:          vPickString(vNondetInt("kdfSel"), kdf, "scrypt"),
			KDFParams: kdfParams{
				C:     vNondetInt("c"),
				DKLen: vNondetInt("dklen"),
				PRF:   vPickString(vNondetInt("prfSel"), pbkdf2PRFStr, "hmac-sha512"),
				Salt:  vHexOrJunk("salt", 40),
			},
		},
	}
	// stated bound: iteration count and derived-key length small enough to run natively
	vAssume(key.Crypto.KDFParams.C >= -4 && key.Crypto.KDFParams.C <= 4096)
	// (lengths between 2^20 and 2^62 would be allocated natively: excluded; extreme values are in)
	vAssume(vAny(vAll(key.Crypto.KDFParams.DKLen >= -64, key.Crypto.KDFParams.DKLen <= 1<<20), key.Crypto.KDFParams.DKLen >= 1<<62))
	key.Crypto.MAC = vMACFor(key, passwd)
	out, err := decryptKey(key, passwd) // a panic escapes = violation
	if err == nil {
		vCover("key file decrypted")
		_ = out
	} else {
		vCover("key file rejected")
	}
}

func vHarnessKsSave() {
	ks := &KeyStore{baseDir: vNondetAtom("dir")}
	_, _ = ks.save(vNondetAtom("address"), encryptedKey{})
	vCover("save returned")
}

func vHarnessKsLoad() {
	ks := &KeyStore{baseDir: vNondetAtom("dir")}
	_, err := ks.load(vNondetAtom("path"))
	if err == nil {
		vCover("load returned a key")
	}
}

func vHarnessKsLoadByAddress() {
	ks := &KeyStore{baseDir: vNondetAtom("dir")}
	_, err := ks.LoadByAddress(vNondetAtom("address"), vNondetAtom("passwd"))
	if err != nil {
		vCover("load by address failed")
	}
}

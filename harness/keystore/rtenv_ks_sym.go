package __PKG__

// symbolic mode: intercepted by gosmt.

// vMACFor returns the MAC field for a key file: symbolically any 32 bytes (the
// comparison with the expected MAC is then decided both ways by the solver).
func vMACFor(key encryptedKey, passwd string) string { return "" }

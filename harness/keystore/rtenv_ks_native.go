package __PKG__

import (
	"encoding/hex"

	"golang.org/x/crypto/pbkdf2"
)

// native mode: the MAC an attacker who chose the password would put in the
// file, i.e. the real MAC for (passwd, salt, c, dklen, ciphertext) whenever it
// is computable; otherwise the oracle's bytes.
func vMACFor(key encryptedKey, passwd string) (mac string) {
	raw := hex.EncodeToString(vNondetBytes("mac", 40))
	defer func() {
		if recover() != nil {
			mac = raw
		}
	}()
	salt, err := hex.DecodeString(key.Crypto.KDFParams.Salt)
	if err != nil {
		return raw
	}
	ct, err := hex.DecodeString(key.Crypto.CipherText)
	if err != nil {
		return raw
	}
	n := key.Crypto.KDFParams.DKLen
	c := key.Crypto.KDFParams.C
	if n < 32 || c > 1<<12 {
		return raw
	}
	// the MAC key is bytes 16..32 of the PBKDF2 output, which do not depend on dklen (>= 32)
	dk := pbkdf2.Key([]byte(passwd), salt, c, 32, pbkdf2PRF)
	m, err := newSHA3Keccak256(dk[macKeyOffset:macKeyOffset+macKeySize], ct)
	if err != nil {
		return raw
	}
	return hex.EncodeToString(m)
}

package __PKG__

import sdk "github.com/cosmos/cosmos-sdk/types"

func vEnvApp() sdk.Context        { return sdk.Context{} }
func vFixedMapOrder()             {}
func vEventCount(name string) int { return 0 }

package __PKG__

import (
	sdk "github.com/cosmos/cosmos-sdk/types"
	"github.com/cosmos/cosmos-sdk/types/module"
)

func vEnvApp() sdk.Context        { return sdk.Context{} }
func vFixedMapOrder()             {}
func vEventCount(name string) int { return 0 }
func vConfigurator() module.Configurator                   { return nil }
func vMigrationRegistered(mod string, from uint64) bool   { return false }
func vMigrationCount(mod string) int                       { return 0 }
func vAnteFeeOK() bool                                      { return true }

package __PKG__

import (
	"github.com/cosmos/cosmos-sdk/types/module"
	authtypes "github.com/cosmos/cosmos-sdk/x/auth/types"
	banktypes "github.com/cosmos/cosmos-sdk/x/bank/types"
	capabilitytypes "github.com/cosmos/cosmos-sdk/x/capability/types"
	distrtypes "github.com/cosmos/cosmos-sdk/x/distribution/types"
	evidencetypes "github.com/cosmos/cosmos-sdk/x/evidence/types"
	govtypes "github.com/cosmos/cosmos-sdk/x/gov/types"
	minttypes "github.com/cosmos/cosmos-sdk/x/mint/types"
	paramstypes "github.com/cosmos/cosmos-sdk/x/params/types"
	slashingtypes "github.com/cosmos/cosmos-sdk/x/slashing/types"
	stakingtypes "github.com/cosmos/cosmos-sdk/x/staking/types"
	upgradetypes "github.com/cosmos/cosmos-sdk/x/upgrade/types"
	ibctransfertypes "github.com/cosmos/ibc-go/v7/modules/apps/transfer/types"
	ibcexported "github.com/cosmos/ibc-go/v7/modules/core/exported"
	ibckeeper "github.com/cosmos/ibc-go/v7/modules/core/keeper"
	"github.com/medibloc/panacea-core/v2/app/keepers"
	"github.com/medibloc/panacea-core/v2/app/upgrades/v2_0_5"
	"github.com/medibloc/panacea-core/v2/x/aol"
	aolkeeper "github.com/medibloc/panacea-core/v2/x/aol/keeper"
	"github.com/medibloc/panacea-core/v2/x/burn"
	burnkeeper "github.com/medibloc/panacea-core/v2/x/burn/keeper"
	"github.com/medibloc/panacea-core/v2/x/did"
	didkeeper "github.com/medibloc/panacea-core/v2/x/did/keeper"
	"github.com/medibloc/panacea-core/v2/x/pnft"
	pnftkeeper "github.com/medibloc/panacea-core/v2/x/pnft/keeper"
	aoltypes "github.com/medibloc/panacea-core/v2/x/aol/types"
	burntypes "github.com/medibloc/panacea-core/v2/x/burn/types"
	didtypes "github.com/medibloc/panacea-core/v2/x/did/types"
	pnfttypes "github.com/medibloc/panacea-core/v2/x/pnft/types"
)

// C19 (configuration half): the ordered upgrade descriptors account for every
// store the binary mounts; the custom stores are never deleted or renamed;
// every upgrade handler runs the migrations exactly once.

func vContains(l []string, s string) bool {
	found := false
	for _, x := range l {
		found = vAny(found, x == s)
	}
	return found
}

// store key of each module that had a store before the first descriptor
// (the modules v2.0.5 lists in its fromVM map)
func vBaselineStores(fromVM map[string]uint64) []string {
	storeOf := map[string]string{
		authtypes.ModuleName: authtypes.StoreKey, banktypes.ModuleName: banktypes.StoreKey, capabilitytypes.ModuleName: capabilitytypes.StoreKey,
		distrtypes.ModuleName: distrtypes.StoreKey, evidencetypes.ModuleName: evidencetypes.StoreKey, govtypes.ModuleName: govtypes.StoreKey,
		minttypes.ModuleName: minttypes.StoreKey, paramstypes.ModuleName: paramstypes.StoreKey, slashingtypes.ModuleName: slashingtypes.StoreKey,
		stakingtypes.ModuleName: stakingtypes.StoreKey, upgradetypes.ModuleName: upgradetypes.StoreKey, ibcexported.ModuleName: ibcexported.StoreKey,
		ibctransfertypes.ModuleName: ibctransfertypes.StoreKey, aoltypes.ModuleName: aoltypes.StoreKey, didtypes.ModuleName: didtypes.StoreKey,
		burntypes.ModuleName: burntypes.StoreKey,
	}
	var out []string
	for mod := range fromVM {
		if sk, ok := storeOf[mod]; ok {
			out = append(out, sk)
		}
	}
	return out
}

func vHarnessUpgradeStoreAccounting() {
	vFixedMapOrder()
	ctx := vEnvApp()
	var ak keepers.AppKeepersWithKey
	ak.GenerateKeys()
	var mounted []string
	for name := range ak.GetKVStoreKey() {
		mounted = append(mounted, name)
	}
	vCheck(len(mounted) >= 4, "C19: the binary mounts stores")
	// the version map of the first descriptor's handler names the pre-existing modules
	ak.IBCKeeper = &ibckeeper.Keeper{}
	h := v2_0_5.CreateUpgradeHandle(&module.Manager{}, nil, &ak)
	fromVM, err := h(ctx, upgradetypes.Plan{}, nil)
	vCheck(err == nil, "C19: the first upgrade handler runs to completion")
	baseline := vBaselineStores(fromVM)
	// every store a descriptor deletes existed before it
	for _, u := range Upgrades {
		baseline = append(baseline, u.StoreUpgrades.Deleted...)
	}
	// an arbitrary mounted store (symbolic choice): decided for all of them at once
	s := vPickString(vNondetInt("mountedStore"), mounted...)
	introduced := false
	for i, u := range Upgrades {
		if vContains(u.StoreUpgrades.Added, s) {
			laterDeleted := false
			for _, w := range Upgrades[i+1:] {
				laterDeleted = vAny(laterDeleted, vContains(w.StoreUpgrades.Deleted, s))
			}
			introduced = vAny(introduced, !laterDeleted)
		}
	}
	deletedAnywhere := false
	for _, u := range Upgrades {
		deletedAnywhere = vAny(deletedAnywhere, vContains(u.StoreUpgrades.Deleted, s))
	}
	predates := vAll(vContains(baseline, s), !deletedAnywhere)
	vCover("store accounting evaluated")
	vCheck(vAny(predates, introduced), "C19: every mounted store predates the first descriptor or is introduced, and not later removed, by one of them")
	// custom-module stores are never deleted or renamed
	for _, u := range Upgrades {
		for _, custom := range []string{aoltypes.StoreKey, didtypes.StoreKey, pnfttypes.StoreKey, burntypes.StoreKey} {
			vCheck(!vContains(u.StoreUpgrades.Deleted, custom), "C19: no descriptor deletes a custom-module store")
			for _, r := range u.StoreUpgrades.Renamed {
				vCheck(r.OldKey != custom && r.NewKey != custom, "C19: no descriptor renames a custom-module store")
			}
		}
	}
	// nothing is added twice; names are unique
	for i, u := range Upgrades {
		for j, w := range Upgrades {
			if i < j {
				vCheck(u.UpgradeName != w.UpgradeName, "C19: upgrade names are unique")
				for _, a := range u.StoreUpgrades.Added {
					vCheck(!vContains(w.StoreUpgrades.Added, a), "C19: no store is added by two descriptors")
				}
			}
		}
	}
}

func vHarnessUpgradeHandlersRunMigrations() {
	vFixedMapOrder()
	ctx := vEnvApp()
	var ak keepers.AppKeepersWithKey
	ak.IBCKeeper = &ibckeeper.Keeper{}
	n := 0
	for _, u := range Upgrades {
		if u.UpgradeName == "v2.2.0" {
			continue // needs the params/staking/consensus keepers of the full app: not encodable (stated)
		}
		h := u.CreateUpgradeHandler(&module.Manager{}, nil, &ak)
		before := vEventCount("RunMigrations")
		vm, err := h(ctx, upgradetypes.Plan{}, map[string]uint64{"aol": 1})
		vCheck(err == nil, "C19: the upgrade handler returns without error when the migrations succeed")
		_, recorded := vm["verif:migrated"]
		vCheck(recorded, "C19: the upgrade handler returns the version map produced by the migrations (module versions are recorded)")
		vCheck(vEventCount("RunMigrations") == before+1, "C19: each upgrade handler runs the module migrations exactly once")
		n++
	}
	vCheck(n >= 4, "C19: handlers of the descriptors were executed")
	vCover("handlers executed")
}


// C19 "the block is processed without halting, module versions are recorded": x/upgrade's
// RunMigrations walks every module from its recorded version to ConsensusVersion() and panics on
// the first missing step, so each custom module must register exactly the migrations
// 1 -> 2 -> ... -> ConsensusVersion() (the real RegisterServices / ConsensusVersion are executed
// against a recording Configurator).
type vVersioned interface {
	ConsensusVersion() uint64
	RegisterServices(module.Configurator)
}

func vMigrationsOf(name string, m vVersioned) {
	cfg := vConfigurator()
	m.RegisterServices(cfg) // a panic here (refused registration) is a violation too
	cv := m.ConsensusVersion()
	vCheck(cv >= 1 && cv <= 16, "C19: a module's consensus version is at least 1")
	if cv < 1 || cv > 16 {
		return
	}
	for from := uint64(1); from < cv; from++ {
		vCheck(vMigrationRegistered(name, from), "C19: a migration is registered for every step from version 1 up to the module's consensus version (else the upgrade block panics)")
	}
	vCheck(uint64(vMigrationCount(name)) == cv-1, "C19: no migration is registered from the current or a future consensus version")
}

func vHarnessModuleMigrationsComplete() {
	vMigrationsOf(aoltypes.ModuleName, aol.NewAppModule(nil, aolkeeper.Keeper{}))
	vMigrationsOf(didtypes.ModuleName, did.NewAppModule(nil, didkeeper.Keeper{}))
	vMigrationsOf(pnfttypes.ModuleName, pnft.NewAppModule(nil, &pnftkeeper.Keeper{}))
	vMigrationsOf(burntypes.ModuleName, burn.NewAppModule(nil, burnkeeper.Keeper{}))
	vCover("module migrations evaluated")
}

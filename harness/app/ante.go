package __PKG__

import (
	"github.com/cosmos/cosmos-sdk/client"
	authsigning "github.com/cosmos/cosmos-sdk/x/auth/signing"
)

// C15 (application wiring, app/ante.go): the fee is charged by the ante chain that the real
// (*App).setAnteHandler installs. The function is executed (decorator constructors from the SDK
// source); what it hands to baseapp is recorded. Obligations: exactly one handler is installed,
// it is a decorator chain, the chain holds exactly one SDK DeductFeeDecorator, and the coins
// that decorator charges are the coins the transaction declares (no custom TxFeeChecker, whose
// result would replace the declared fee). The decorators' own behaviour is SDK code (assumed).

type vAnteTxConfig struct{ client.TxConfig }

func (vAnteTxConfig) SignModeHandler() authsigning.SignModeHandler { return nil }

func vHarnessAnteChain() {
	a := &App{}
	a.setAnteHandler(vAnteTxConfig{})
	vCheck(vEventCount("SetAnteHandler") == 1, "C15: the application installs exactly one ante handler")
	vCheck(vEventCount("SetAnteHandler:not-a-chain") == 0, "C15: the installed ante handler is the decorator chain built by sdk.ChainAnteDecorators")
	vCheck(vEventCount("ante:nil-decorator") == 0, "C15: no nil decorator in the ante chain")
	vCheck(vEventCount("ante:type:github.com/cosmos/cosmos-sdk/x/auth/ante.DeductFeeDecorator") == 1, "C15: the ante chain deducts the fee exactly once (one SDK DeductFeeDecorator)")
	vCheck(vEventCount("ante:feechecker:default")+vEventCount("ante:feechecker:custom") == 1, "C15: the fee deduction has a fee checker")
	// default checker: charges the declared fee (SDK, by identity); custom checker: executed in
	// deliver mode on a transaction declaring arbitrary fee coins and gas
	vCheck(vAnteFeeOK(), "C15: in block execution the coins charged are exactly the fee the transaction declares (a TxFeeChecker must not replace them)")
	vCheck(vEventCount("ante:type:github.com/cosmos/cosmos-sdk/x/auth/ante.SigVerificationDecorator") == 1, "C15: the fee payer's signature is verified by the chain (SDK SigVerificationDecorator present once)")
	vCover("ante chain evaluated")
}

package __PKG__

// C18.1 round-trip at full width: Decode(Encode(t)) = t for arity 0..4,
// every component length 0..255 symbolic.

type vKey struct{ in, out [][]byte }

func (k *vKey) ByteSlices() [][]byte            { return k.in }
func (k *vKey) FromByteSlices(b [][]byte) error { k.out = b; return nil }
func (k *vKey) Strings() []string               { return nil }
func (k *vKey) FromStrings([]string) error      { return nil }

func vRoundTrip(n int) {
	in := make([][]byte, n)
	total := n
	for i := 0; i < n; i++ {
		in[i] = vNondetBytes("c", 255)
		total += len(in[i])
	}
	k := &vKey{in: in}
	bz, err := Encode(k)
	vCheck(err == nil, "encode accepts components <= 255")
	if err != nil {
		return
	}
	vCheck(len(bz) == total, "encoded length = arity + sum of lengths")
	d := &vKey{}
	derr := Decode(bz, d)
	vCheck(derr == nil, "decode accepts own encoding")
	if derr != nil {
		return
	}
	vCheck(len(d.out) == n, "arity preserved")
	if len(d.out) != n {
		return
	}
	vCover("round-trip complete")
	for i := 0; i < n; i++ {
		vCheck(vBytesEqual(d.out[i], in[i]), "component preserved")
	}
}

func vHarnessRoundTrip0() { vRoundTrip(0) }
func vHarnessRoundTrip1() { vRoundTrip(1) }
func vHarnessRoundTrip2() { vRoundTrip(2) }
func vHarnessRoundTrip3() { vRoundTrip(3) }
func vHarnessRoundTrip4() { vRoundTrip(4) }

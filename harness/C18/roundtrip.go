package __PKG__

// C18.1 round-trip at full width: Decode(Encode(t)) = t for arity 0..4,
// every component length 0..255 symbolic.

type vKey struct{ in, out [][]byte }

func (k *vKey) ByteSlices() [][]byte            { return k.in }
func (k *vKey) FromByteSlices(b [][]byte) error { k.out = b; return nil }
func (k *vKey) Strings() []string               { return nil }
func (k *vKey) FromStrings([]string) error      { return nil }

func vRoundTrip(n int) {
	in := make([][]byte, n)
	total := n
	for i := 0; i < n; i++ {
		in[i] = vNondetBytes("c", 255)
		total += len(in[i])
	}
	k := &vKey{in: in}
	bz, err := Encode(k)
	vCheck(err == nil, "encode accepts components <= 255")
	if err != nil {
		return
	}
	vCheck(len(bz) == total, "encoded length = arity + sum of lengths")
	d := &vKey{}
	derr := Decode(bz, d)
	vCheck(derr == nil, "decode accepts own encoding")
	if derr != nil {
		return
	}
	vCheck(len(d.out) == n, "arity preserved")
	if len(d.out) != n {
		return
	}
	vCover("round-trip complete")
	for i := 0; i < n; i++ {
		vCheck(vBytesEqual(d.out[i], in[i]), "component preserved")
	}
}

func vHarnessRoundTrip0() { vRoundTrip(0) }
func vHarnessRoundTrip1() { vRoundTrip(1) }
func vHarnessRoundTrip2() { vRoundTrip(2) }
func vHarnessRoundTrip3() { vRoundTrip(3) }
func vHarnessRoundTrip4() { vRoundTrip(4) }

// Concrete vectors (the shape of the repository's own compkey tests): the
// interpreter must compute exactly what the Go code computes on constants.
func vHarnessConcreteVectors() {
	k := &vKey{in: [][]byte{[]byte("hello"), {0, 0, 0, 0, 0, 0, 0, 100}}}
	bz, err := Encode(k)
	vCheck(err == nil, "vector: encode succeeds")
	want := []byte{5, 'h', 'e', 'l', 'l', 'o', 8, 0, 0, 0, 0, 0, 0, 0, 100}
	vCheck(vBytesEqual(bz, want), "vector: Encode(hello,100) is 05 68656c6c6f 08 0000000000000064")
	p, perr := PartialEncode(k, 1)
	vCheck(perr == nil && vBytesEqual(p, want[:6]), "vector: PartialEncode(1) is the first six bytes")
	d := &vKey{}
	vCheck(Decode(want[:len(want)-1], d) != nil, "vector: a truncated encoding is rejected")
	d2 := &vKey{}
	vCheck(Decode(want, d2) == nil && len(d2.out) == 2 && vBytesEqual(d2.out[0], []byte("hello")), "vector: decode returns the components")
	_, e3 := PartialEncode(k, 3)
	vCheck(e3 != nil, "vector: PartialEncode beyond the arity is rejected")
	vCover("concrete vectors")
}

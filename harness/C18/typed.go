package __PKG__

import (
	sdk "github.com/cosmos/cosmos-sdk/types"
	"github.com/medibloc/panacea-core/v2/types/compkey"
)

// C18.7 typed AOL keys: byte form round-trips, decoder is total and canonical.

func vAddrBytes(site string) sdk.AccAddress {
	b := vNondetBytes(site, 255)
	vAssume(len(b) >= 1)
	return sdk.AccAddress(b)
}

func vHarnessOwnerKeyRoundTrip() {
	k := OwnerCompositeKey{OwnerAddress: vAddrBytes("owner")}
	bz := compkey.MustEncode(&k)
	var d OwnerCompositeKey
	err := compkey.Decode(bz, &d)
	vCheck(err == nil, "own encoding decodes")
	if err != nil {
		return
	}
	vCover("owner key round-trip")
	vCheck(vBytesEqual(d.OwnerAddress, k.OwnerAddress), "owner preserved")
}

func vHarnessTopicKeyRoundTrip() {
	k := TopicCompositeKey{OwnerAddress: vAddrBytes("owner"), TopicName: vNondetString("topic", 255)}
	bz := compkey.MustEncode(&k)
	var d TopicCompositeKey
	err := compkey.Decode(bz, &d)
	vCheck(err == nil, "own encoding decodes")
	if err != nil {
		return
	}
	vCover("topic key round-trip")
	vCheck(vBytesEqual(d.OwnerAddress, k.OwnerAddress), "owner preserved")
	vCheck(d.TopicName == k.TopicName, "topic preserved")
}

func vHarnessWriterKeyRoundTrip() {
	k := WriterCompositeKey{OwnerAddress: vAddrBytes("owner"), TopicName: vNondetString("topic", 255), WriterAddress: vAddrBytes("writer")}
	bz := compkey.MustEncode(&k)
	var d WriterCompositeKey
	err := compkey.Decode(bz, &d)
	vCheck(err == nil, "own encoding decodes")
	if err != nil {
		return
	}
	vCover("writer key round-trip")
	vCheck(vBytesEqual(d.OwnerAddress, k.OwnerAddress), "owner preserved")
	vCheck(d.TopicName == k.TopicName, "topic preserved")
	vCheck(vBytesEqual(d.WriterAddress, k.WriterAddress), "writer preserved")
}

func vHarnessRecordKeyRoundTrip() {
	k := RecordCompositeKey{OwnerAddress: vAddrBytes("owner"), TopicName: vNondetString("topic", 255), Offset: vNondetU64("offset")}
	bz := compkey.MustEncode(&k)
	var d RecordCompositeKey
	err := compkey.Decode(bz, &d)
	vCheck(err == nil, "own encoding decodes")
	if err != nil {
		return
	}
	vCover("record key round-trip")
	vCheck(vBytesEqual(d.OwnerAddress, k.OwnerAddress), "owner preserved")
	vCheck(d.TopicName == k.TopicName, "topic preserved")
	vCheck(d.Offset == k.Offset, "offset preserved")
}

// Decoding arbitrary well-formed tuples into a typed key never panics and
// accepts only tuples that the key re-encodes to the same components.
func vTuple(n int) [][]byte {
	t := make([][]byte, n)
	for i := range t {
		t[i] = vNondetBytes("t", 255)
	}
	return t
}

func vSameTuple(a, b [][]byte, label string) {
	vCheck(len(a) == len(b), label+": arity")
	if len(a) != len(b) {
		return
	}
	for i := range a {
		vCheck(vBytesEqual(a[i], b[i]), label+": component")
	}
}

func vHarnessOwnerFromSlices() {
	n := vNondetInt("n")
	vAssume(n >= 0 && n <= 3)
	t := vTuple(n)
	var k OwnerCompositeKey
	if k.FromByteSlices(t) != nil {
		vCover("owner tuple rejected")
		return
	}
	vCover("owner tuple accepted")
	vSameTuple(k.ByteSlices(), t, "accepted owner tuple is canonical")
}

func vHarnessTopicFromSlices() {
	n := vNondetInt("n")
	vAssume(n >= 0 && n <= 3)
	t := vTuple(n)
	var k TopicCompositeKey
	if k.FromByteSlices(t) != nil {
		vCover("topic tuple rejected")
		return
	}
	vCover("topic tuple accepted")
	vSameTuple(k.ByteSlices(), t, "accepted topic tuple is canonical")
}

func vHarnessWriterFromSlices() {
	n := vNondetInt("n")
	vAssume(n >= 0 && n <= 4)
	t := vTuple(n)
	var k WriterCompositeKey
	if k.FromByteSlices(t) != nil {
		vCover("writer tuple rejected")
		return
	}
	vCover("writer tuple accepted")
	vSameTuple(k.ByteSlices(), t, "accepted writer tuple is canonical")
}

func vHarnessRecordFromSlices() {
	n := vNondetInt("n")
	vAssume(n >= 0 && n <= 4)
	t := vTuple(n)
	var k RecordCompositeKey
	if k.FromByteSlices(t) != nil { // a panic here escapes = violation
		vCover("record tuple rejected")
		return
	}
	vCover("record tuple accepted")
	vSameTuple(k.ByteSlices(), t, "accepted record tuple is canonical")
}

// C18.8 string form.

func vHarnessSeparatorNotInTopic() {
	vCheck(len(GenesisKeySeparator) == 1, "separator is one byte")
	t := vNondetString("topic", 90)
	vAssume(validateTopicName(t) == nil)
	vCover("valid topic")
	i := vNondetInt("i")
	vAssume(i >= 0 && i < len(t))
	vCheck(t[i] != GenesisKeySeparator[0], "a valid topic name never contains the genesis key separator")
}

func vHarnessOwnerStringRoundTrip() {
	k := OwnerCompositeKey{OwnerAddress: vAddrBytes("owner")}
	s := compkey.EncodeToString(&k, GenesisKeySeparator)
	var d OwnerCompositeKey
	err := compkey.DecodeFromString(s, GenesisKeySeparator, &d)
	vCheck(err == nil, "own string form decodes")
	if err != nil {
		return
	}
	vCover("owner string round-trip")
	vCheck(vBytesEqual(d.OwnerAddress, k.OwnerAddress), "owner preserved")
}

func vHarnessTopicStringRoundTrip() {
	k := TopicCompositeKey{OwnerAddress: vAddrBytes("owner"), TopicName: vNondetString("topic", 90)}
	vAssume(validateTopicName(k.TopicName) == nil)
	s := compkey.EncodeToString(&k, GenesisKeySeparator)
	var d TopicCompositeKey
	err := compkey.DecodeFromString(s, GenesisKeySeparator, &d)
	vCheck(err == nil, "own string form decodes")
	if err != nil {
		return
	}
	vCover("topic string round-trip")
	vCheck(vBytesEqual(d.OwnerAddress, k.OwnerAddress), "owner preserved")
	vCheck(d.TopicName == k.TopicName, "topic preserved")
}

func vHarnessWriterStringRoundTrip() {
	k := WriterCompositeKey{OwnerAddress: vAddrBytes("owner"), TopicName: vNondetString("topic", 90), WriterAddress: vAddrBytes("writer")}
	vAssume(validateTopicName(k.TopicName) == nil)
	s := compkey.EncodeToString(&k, GenesisKeySeparator)
	var d WriterCompositeKey
	err := compkey.DecodeFromString(s, GenesisKeySeparator, &d)
	vCheck(err == nil, "own string form decodes")
	if err != nil {
		return
	}
	vCover("writer string round-trip")
	vCheck(vBytesEqual(d.OwnerAddress, k.OwnerAddress), "owner preserved")
	vCheck(d.TopicName == k.TopicName, "topic preserved")
	vCheck(vBytesEqual(d.WriterAddress, k.WriterAddress), "writer preserved")
}

func vHarnessRecordStringRoundTrip() {
	k := RecordCompositeKey{OwnerAddress: vAddrBytes("owner"), TopicName: vNondetString("topic", 90), Offset: vNondetU64("offset")}
	vAssume(validateTopicName(k.TopicName) == nil)
	s := compkey.EncodeToString(&k, GenesisKeySeparator)
	var d RecordCompositeKey
	err := compkey.DecodeFromString(s, GenesisKeySeparator, &d)
	vCheck(err == nil, "own string form decodes")
	if err != nil {
		return
	}
	vCover("record string round-trip")
	vCheck(vBytesEqual(d.OwnerAddress, k.OwnerAddress), "owner preserved")
	vCheck(d.TopicName == k.TopicName, "topic preserved")
	vCheck(d.Offset == k.Offset, "offset preserved")
}

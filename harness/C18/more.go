package __PKG__

// C18.2 oversize components are rejected, never truncated.
func vOversize(n, bad int) {
	in := make([][]byte, n)
	for i := 0; i < n; i++ {
		if i == bad {
			in[i] = vNondetBytes("long", 70000)
			vAssume(len(in[i]) > 255)
		} else {
			in[i] = vNondetBytes("c", 255)
		}
	}
	k := &vKey{in: in}
	bz, err := Encode(k)
	vCheck(err != nil, "oversize component rejected by Encode")
	vCheck(bz == nil, "no bytes returned for oversize component")
	vCover("oversize rejected")
	p := vCatch(func() { MustEncode(k) })
	vCheck(p, "MustEncode panics on oversize component")
	for m := 0; m <= n; m++ {
		pbz, perr := PartialEncode(k, m)
		if m > bad {
			vCheck(perr != nil && pbz == nil, "PartialEncode covering the oversize component rejects")
		} else {
			vCheck(perr == nil, "PartialEncode not covering the oversize component succeeds")
		}
	}
	_, perr := PartialEncode(k, n+1)
	vCheck(perr != nil, "PartialEncode with too many values rejects")
}

func vHarnessOversize1() { vOversize(1, 0) }
func vHarnessOversize3a() { vOversize(3, 0) }
func vHarnessOversize3b() { vOversize(3, 1) }
func vHarnessOversize3c() { vOversize(3, 2) }
func vHarnessOversize4() { vOversize(4, 3) }

// C18.3 decoder totality and canonicity on arbitrary input.
func vHarnessDecodeArbitrary() {
	bz := vNondetBytes("bz", vDecodeMax)
	d := &vKey{}
	err := Decode(bz, d) // any panic here escapes the harness = violation
	if err != nil {
		vCover("malformed input rejected")
		return
	}
	vCover("arbitrary input accepted")
	re, rerr := Encode(&vKey{in: d.out})
	vCheck(rerr == nil, "decoded values re-encode")
	if rerr != nil {
		return
	}
	vCheck(vBytesEqual(re, bz), "accepted input is the canonical encoding of what it decodes to")
}

// C18.4 prefix (<=): PartialEncode(k) is a byte prefix of Encode, for every k.
func vPrefixOf(n, k int) {
	in := make([][]byte, n)
	for i := 0; i < n; i++ {
		in[i] = vNondetBytes("c", 255)
	}
	key := &vKey{in: in}
	full, err := Encode(key)
	vAssume(err == nil)
	part, perr := PartialEncode(key, k)
	vCheck(perr == nil, "PartialEncode accepts k <= n")
	if perr != nil {
		return
	}
	vCheck(vHasPrefix(full, part), "partial encoding is a byte prefix of the full encoding")
	// and of any other key sharing the first k components
	other := make([][]byte, n)
	for i := 0; i < n; i++ {
		if i < k {
			other[i] = in[i]
		} else {
			other[i] = vNondetBytes("o", 255)
		}
	}
	ofull, oerr := Encode(&vKey{in: other})
	vAssume(oerr == nil)
	vCheck(vHasPrefix(ofull, part), "partial encoding is a prefix of every key sharing its first k components")
	vCover("prefix checked")
}

func vHarnessPrefixOf1_0() { vPrefixOf(1, 0) }
func vHarnessPrefixOf1_1() { vPrefixOf(1, 1) }
func vHarnessPrefixOf2_0() { vPrefixOf(2, 0) }
func vHarnessPrefixOf2_1() { vPrefixOf(2, 1) }
func vHarnessPrefixOf2_2() { vPrefixOf(2, 2) }
func vHarnessPrefixOf3_0() { vPrefixOf(3, 0) }
func vHarnessPrefixOf3_1() { vPrefixOf(3, 1) }
func vHarnessPrefixOf3_2() { vPrefixOf(3, 2) }
func vHarnessPrefixOf3_3() { vPrefixOf(3, 3) }
func vHarnessPrefixOf4_0() { vPrefixOf(4, 0) }
func vHarnessPrefixOf4_1() { vPrefixOf(4, 1) }
func vHarnessPrefixOf4_2() { vPrefixOf(4, 2) }
func vHarnessPrefixOf4_3() { vPrefixOf(4, 3) }
func vHarnessPrefixOf4_4() { vPrefixOf(4, 4) }

// C18.5 prefix (=>), single-run form: whatever follows PartialEncode(a,k), if
// the whole decodes, its first k values are a[:k].
func vPrefixExact(k int) {
	in := make([][]byte, k)
	for i := 0; i < k; i++ {
		in[i] = vNondetBytes("c", 255)
	}
	part, err := PartialEncode(&vKey{in: in}, k)
	vAssume(err == nil)
	junk := vNondetBytes("junk", vJunkMax)
	whole := append(part, junk...)
	d := &vKey{}
	derr := Decode(whole, d)
	if derr != nil {
		return
	}
	vCheck(len(d.out) >= k, "at least k values decoded")
	if len(d.out) < k {
		return
	}
	vCover("extension decodes")
	for i := 0; i < k; i++ {
		vCheck(vBytesEqual(d.out[i], in[i]), "first k decoded values equal the prefix components")
	}
}

func vHarnessPrefixExact1() { vPrefixExact(1) }
func vHarnessPrefixExact2() { vPrefixExact(2) }
func vHarnessPrefixExact3() { vPrefixExact(3) }

package __PKG__

import (
	"time"

	dbm "github.com/cometbft/cometbft-db"
	"github.com/cometbft/cometbft/libs/log"
	tmproto "github.com/cometbft/cometbft/proto/tendermint/types"
	"github.com/cosmos/cosmos-sdk/codec"
	codectypes "github.com/cosmos/cosmos-sdk/codec/types"
	"github.com/cosmos/cosmos-sdk/store"
	storetypes "github.com/cosmos/cosmos-sdk/store/types"
	sdk "github.com/cosmos/cosmos-sdk/types"
	authkeeper "github.com/cosmos/cosmos-sdk/x/auth/keeper"
	authtypes "github.com/cosmos/cosmos-sdk/x/auth/types"
	vestingtypes "github.com/cosmos/cosmos-sdk/x/auth/vesting/types"
	bankkeeper "github.com/cosmos/cosmos-sdk/x/bank/keeper"
	banktypes "github.com/cosmos/cosmos-sdk/x/bank/types"
	minttypes "github.com/cosmos/cosmos-sdk/x/mint/types"
	"github.com/medibloc/panacea-core/v2/x/burn/keeper"
	"github.com/medibloc/panacea-core/v2/x/burn/types"
)

// native mode: the real bank, auth and burn keepers of the repository's own
// test suite; the burn address gets a real (permanently locked) vesting account
// when the oracle asks for locked coins.

type vSuite struct {
	Ctx           sdk.Context
	AccountKeeper authkeeper.AccountKeeper
	BankKeeper    bankkeeper.Keeper
	BurnKeeper    keeper.Keeper
}

var (
	vTS     *vSuite
	vDenoms = [2]string{"aaa", "umed"}
)

// vEnvBurn builds the real auth, bank and burn keepers on an in-memory IAVL
// multistore (as the repository's test suite does), with the vesting account
// types registered so that the burn address can hold locked coins.
func vEnvBurn() (sdk.Context, keeper.Keeper) {
	sdk.GetConfig().SetBech32PrefixForAccount("panacea", "panaceapub")
	keys := sdk.NewKVStoreKeys(authtypes.StoreKey, banktypes.StoreKey)
	db := dbm.NewMemDB()
	ms := store.NewCommitMultiStore(db)
	for _, k := range keys {
		ms.MountStoreWithDB(k, storetypes.StoreTypeIAVL, db)
	}
	if err := ms.LoadLatestVersion(); err != nil {
		panic(err)
	}
	bt := vNondetI64("blocktime")
	ctx := sdk.NewContext(ms, tmproto.Header{Time: time.Unix(0, bt).UTC()}, false, log.NewNopLogger())
	ir := codectypes.NewInterfaceRegistry()
	authtypes.RegisterInterfaces(ir)
	banktypes.RegisterInterfaces(ir)
	vestingtypes.RegisterInterfaces(ir)
	cdc := codec.NewProtoCodec(ir)
	maccPerms := map[string][]string{
		authtypes.FeeCollectorName: nil,
		minttypes.ModuleName:       {authtypes.Minter},
		types.ModuleName:           {authtypes.Burner},
	}
	gov := authtypes.NewModuleAddress("gov").String()
	ak := authkeeper.NewAccountKeeper(cdc, keys[authtypes.StoreKey], authtypes.ProtoBaseAccount, maccPerms, "panacea", gov)
	if err := ak.SetParams(ctx, authtypes.DefaultParams()); err != nil {
		panic(err)
	}
	bk := bankkeeper.NewBaseKeeper(cdc, keys[banktypes.StoreKey], ak, map[string]bool{}, gov)
	if err := bk.SetParams(ctx, banktypes.DefaultParams()); err != nil {
		panic(err)
	}
	vTS = &vSuite{Ctx: ctx, AccountKeeper: ak, BankKeeper: bk, BurnKeeper: *keeper.NewKeeper(bk)}
	return ctx, vTS.BurnKeeper
}

func vBurnAddr() sdk.AccAddress {
	a, err := sdk.AccAddressFromBech32(types.BurnAddress)
	if err != nil {
		panic(err)
	}
	return a
}

func vMintTo(addr sdk.AccAddress, denom string, amt uint64) {
	if amt == 0 {
		return
	}
	c := sdk.NewCoins(sdk.NewCoin(denom, sdk.NewIntFromUint64(amt)))
	if err := vTS.BankKeeper.MintCoins(vTS.Ctx, minttypes.ModuleName, c); err != nil {
		panic(err)
	}
	if err := vTS.BankKeeper.SendCoinsFromModuleToAccount(vTS.Ctx, minttypes.ModuleName, addr, c); err != nil {
		panic(err)
	}
}

func vBankInit() {
	burn := vBurnAddr()
	var total, locked, module, rest [2]uint64
	for d := 0; d < 2; d++ {
		total[d] = vNondetU64("burnTotal")
		locked[d] = vNondetU64("burnLocked")
		module[d] = vNondetU64("moduleTotal")
		rest[d] = vNondetU64("restOfSupply")
	}
	lockedCoins := sdk.NewCoins()
	for d := 0; d < 2; d++ {
		l := locked[d]
		if l > total[d] {
			l = total[d]
		}
		if l > 0 {
			lockedCoins = lockedCoins.Add(sdk.NewCoin(vDenoms[d], sdk.NewIntFromUint64(l)))
		}
	}
	if !lockedCoins.IsZero() {
		base := authtypes.NewBaseAccountWithAddress(burn)
		base.AccountNumber = vTS.AccountKeeper.NextAccountNumber(vTS.Ctx)
		vTS.AccountKeeper.SetAccount(vTS.Ctx, vestingtypes.NewPermanentLockedAccount(base, lockedCoins))
	}
	other := sdk.AccAddress([]byte("some-other-account--"))
	for d := 0; d < 2; d++ {
		vMintTo(burn, vDenoms[d], total[d])
		if module[d] > 0 {
			c := sdk.NewCoins(sdk.NewCoin(vDenoms[d], sdk.NewIntFromUint64(module[d])))
			if err := vTS.BankKeeper.MintCoins(vTS.Ctx, minttypes.ModuleName, c); err != nil {
				panic(err)
			}
			if err := vTS.BankKeeper.SendCoinsFromModuleToModule(vTS.Ctx, minttypes.ModuleName, types.ModuleName, c); err != nil {
				panic(err)
			}
		}
		vMintTo(other, vDenoms[d], rest[d])
	}
}

func vBankBurnTotal(d int) uint64 {
	return vTS.BankKeeper.GetBalance(vTS.Ctx, vBurnAddr(), vDenoms[d]).Amount.Uint64()
}
func vBankBurnSpendable(d int) uint64 {
	return vTS.BankKeeper.SpendableCoins(vTS.Ctx, vBurnAddr()).AmountOf(vDenoms[d]).Uint64()
}
func vBankModuleTotal(d int) uint64 {
	return vTS.BankKeeper.GetBalance(vTS.Ctx, authtypes.NewModuleAddress(types.ModuleName), vDenoms[d]).Amount.Uint64()
}
func vBankSupply(d int) uint64 { return vTS.BankKeeper.GetSupply(vTS.Ctx, vDenoms[d]).Amount.Uint64() }
func vBankRest(d int) uint64 {
	return vBankSupply(d) - vBankBurnTotal(d) - vBankModuleTotal(d)
}
func vBankSupplyInvariantHolds() bool {
	_, broken := bankkeeper.TotalSupply(vTS.BankKeeper)(vTS.Ctx)
	return !broken
}

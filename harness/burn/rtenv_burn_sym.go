package __PKG__

import (
	sdk "github.com/cosmos/cosmos-sdk/types"
	"github.com/medibloc/panacea-core/v2/x/burn/keeper"
)

func vEnvBurn() (sdk.Context, keeper.Keeper) { return sdk.Context{}, keeper.Keeper{} }
func vBankInit()                            {}
func vBankBurnTotal(d int) uint64           { return 0 }
func vBankBurnSpendable(d int) uint64       { return 0 }
func vBankModuleTotal(d int) uint64         { return 0 }
func vBankSupply(d int) uint64              { return 0 }
func vBankRest(d int) uint64                { return 0 }
func vBankSupplyInvariantHolds() bool       { return true }

package __PKG__

import (
	abci "github.com/cometbft/cometbft/abci/types"
)

// C07: the burn address is a sink. Real BurnCoins / EndBlock code against the
// BANK contract model (symbolic) and the real bank keeper (native replay).

func vHarnessBurnEndBlock() {
	ctx, k := vEnvBurn()
	vBankInit()
	var preSp, preSupply, preRest, preTotal [2]uint64
	for d := 0; d < 2; d++ {
		preSp[d], preSupply[d], preRest[d], preTotal[d] = vBankBurnSpendable(d), vBankSupply(d), vBankRest(d), vBankBurnTotal(d)
	}
	if preSp[0] > 0 && preSp[1] > 0 {
		vCover("two denominations to burn")
	}
	if preTotal[0] > preSp[0] || preTotal[1] > preSp[1] {
		vCover("locked coins at the burn address")
	}
	am := NewAppModule(nil, k)
	am.EndBlock(ctx, abci.RequestEndBlock{}) // a panic escapes = violation (block processing never halts)
	vCover("end block processed")
	for d := 0; d < 2; d++ {
		if d == 0 {
			vCheck(vBankBurnSpendable(d) == 0, "C07: after every block the spendable balance of the burn address is zero in every denomination (first denomination)")
		} else {
			vCheck(vBankBurnSpendable(d) == 0, "C07: after every block the spendable balance of the burn address is zero in every denomination (second denomination)")
		}
		vCheck(vBankSupply(d) == preSupply[d]-preSp[d], "C07: the burn removes from the total supply exactly what was spendable at the burn address")
		vCheck(vBankRest(d) == preRest[d], "C07: supply equals the sum of all balances after the burn (no coins debited without being burned or credited)")
	}
	vCheck(vBankSupplyInvariantHolds(), "C07: the bank total-supply invariant holds after the block")
}

package __PKG__

// Harness runtime, playback variant: the nondeterministic inputs are read from
// the solver's assignment (oracle), the real code runs natively.

import (
	"encoding/json"
	"fmt"
	"os"
	"strconv"
	"strings"
	"testing"

	sdk "github.com/cosmos/cosmos-sdk/types"
)

type vReplayCase struct {
	Harness string                 `json:"harness"`
	Oracle  map[string]interface{} `json:"oracle"`
	Expect  string                 `json:"expect"` // "check:<label>" | "cover:<label>" | "panic"
	ID      string                 `json:"id"`
}

type vAssumeFailed struct{}

// vTestingT is set by the generated replay test (some native environments
// are built from the repository's testify suite).
var vTestingT *testing.T

var (
	vOracle   map[string]interface{}
	vSites    map[string]int
	vFailures []string
	vCovered  []string
)

func vSiteKey(site string) string {
	n := vSites[site]
	vSites[site] = n + 1
	if n == 0 {
		return site
	}
	return fmt.Sprintf("%s#%d", site, n)
}

func vLookup(site string) (interface{}, bool) {
	v, ok := vOracle[vSiteKey(site)]
	return v, ok
}

func vNum(site string) uint64 {
	v, ok := vLookup(site)
	if !ok {
		return 0
	}
	switch x := v.(type) {
	case string:
		if u, err := strconv.ParseUint(x, 10, 64); err == nil {
			return u
		}
		if i, err := strconv.ParseInt(x, 10, 64); err == nil {
			return uint64(i)
		}
	case float64:
		return uint64(x)
	case bool:
		if x {
			return 1
		}
	}
	return 0
}

func vRawBytes(site string) []byte {
	v, ok := vLookup(site)
	if !ok {
		return []byte{}
	}
	l, ok := v.([]interface{})
	if !ok {
		return []byte{}
	}
	out := make([]byte, len(l))
	for i, x := range l {
		if f, ok := x.(float64); ok {
			out[i] = byte(f)
		}
	}
	return out
}

func vNondetU64(site string) uint64 { return vNum(site) }
func vNondetI64(site string) int64  { return int64(vNum(site)) }
func vNondetInt(site string) int    { return int(int64(vNum(site))) }
func vNondetU32(site string) uint32 { return uint32(vNum(site)) }
func vNondetI32(site string) int32  { return int32(vNum(site)) }
func vNondetByte(site string) byte  { return byte(vNum(site)) }
func vNondetBool(site string) bool {
	v, ok := vLookup(site)
	if !ok {
		return false
	}
	b, _ := v.(bool)
	return b
}
func vNondetBytes(site string, max int) []byte {
	b := vRawBytes(site)
	// inputs have cap == len, as assumed by the symbolic run
	return b[:len(b):len(b)]
}
func vNondetString(site string, max int) string { return string(vRawBytes(site)) }
func vNondetAtom(site string) string            { return string(vRawBytes(site)) }
func vNondetAddr(site string) string {
	b := vRawBytes(site)
	if len(b) == 0 {
		b = []byte{1}
	}
	return sdk.AccAddress(b).String()
}
func vAssume(c bool) {
	if !c {
		panic(vAssumeFailed{})
	}
}
func vCheck(c bool, label string) {
	if !c {
		vFailures = append(vFailures, label)
	}
}
func vCover(label string)       { vCovered = append(vCovered, label) }
func vUnreachable(label string) { vFailures = append(vFailures, "unreachable: "+label) }
func vCatch(f func()) (panicked bool) {
	defer func() {
		if r := recover(); r != nil {
			if _, ok := r.(vAssumeFailed); ok {
				panic(r)
			}
			panicked = true
		}
	}()
	f()
	return false
}
func vBytesEqual(a, b []byte) bool { return string(a) == string(b) }
func vHasPrefix(a, p []byte) bool  { return len(a) >= len(p) && string(a[:len(p)]) == string(p) }
func vInstantiate(i int)           {}
func vNote(s string)               {}
func vSymbolic() bool              { return false }
func vPickString(idx int, options ...string) string {
	if idx < 0 || idx >= len(options) {
		return options[len(options)-1]
	}
	return options[idx]
}
func vAllBytesIn(s string, lo, hi int, set string) bool {
	for i := lo; i < hi && i < len(s); i++ {
		if i < 0 {
			continue
		}
		ok := false
		for k := 0; k < len(set); k++ {
			if set[k] == s[i] {
				ok = true
			}
		}
		if !ok {
			return false
		}
	}
	return true
}
func vNoBytesIn(s string, lo, hi int, set string) bool {
	for i := lo; i < hi && i < len(s); i++ {
		if i < 0 {
			continue
		}
		for k := 0; k < len(set); k++ {
			if set[k] == s[i] {
				return false
			}
		}
	}
	return true
}
func vSetAddrMax(n int)            {}

// vNondetText builds a valid UTF-8 string with exactly the byte length and rune count of the oracle
// (every pair with runes <= len <= 4*runes is realisable with 1..4-byte runes).
func vNondetText(site string, max int) string {
	k := vSiteKey(site)
	num := func(key string) int {
		switch x := vOracle[key].(type) {
		case string:
			u, _ := strconv.ParseUint(x, 10, 64)
			return int(u)
		case float64:
			return int(x)
		}
		return 0
	}
	l, r := num(k+".len"), num(k+".runes")
	if r == 0 || l < r {
		return ""
	}
	out := make([]byte, 0, l)
	extra := l - r // bytes beyond one per rune
	for i := 0; i < r; i++ {
		add := extra
		if add > 3 {
			add = 3
		}
		extra -= add
		switch add {
		case 0:
			out = append(out, 'a')
		case 1:
			out = append(out, 0xC3, 0xA9) // é
		case 2:
			out = append(out, 0xE2, 0x82, 0xAC) // €
		case 3:
			out = append(out, 0xF0, 0x9F, 0x98, 0x80) // 😀
		}
	}
	return string(out)
}
func vHasPrefixS(s, p string) bool { return len(s) >= len(p) && s[:len(p)] == p }
func vAll(c ...bool) bool {
	for _, x := range c {
		if !x {
			return false
		}
	}
	return true
}
func vAny(c ...bool) bool {
	for _, x := range c {
		if x {
			return true
		}
	}
	return false
}

// vRunReplay executes the cases listed in $VERIF_REPLAY_CASES and prints one
// result line per case.
func vRunReplay(table map[string]func()) {
	path := os.Getenv("VERIF_REPLAY_CASES")
	data, err := os.ReadFile(path)
	if err != nil {
		fmt.Println("VREPLAY-ERROR cannot read cases:", err)
		return
	}
	var cases []vReplayCase
	if err := json.Unmarshal(data, &cases); err != nil {
		fmt.Println("VREPLAY-ERROR bad cases:", err)
		return
	}
	for _, c := range cases {
		vOracle, vSites, vFailures, vCovered = c.Oracle, map[string]int{}, nil, nil
		f := table[c.Harness]
		if f == nil {
			vEmit(c.ID, "error", nil, nil, "no harness "+c.Harness)
			continue
		}
		status, detail := "ok", ""
		func() {
			defer func() {
				if r := recover(); r != nil {
					if _, ok := r.(vAssumeFailed); ok {
						status = "assume-failed"
						return
					}
					status, detail = "panic", fmt.Sprint(r)
				}
			}()
			f()
		}()
		vEmit(c.ID, status, vFailures, vCovered, detail)
	}
}

func vEmit(id, status string, failures, covered []string, detail string) {
	if failures == nil {
		failures = []string{}
	}
	if covered == nil {
		covered = []string{}
	}
	b, _ := json.Marshal(map[string]interface{}{"id": id, "status": status, "failures": failures, "covered": covered, "detail": detail})
	fmt.Printf("VREPLAY %s\n", b)
}

// vRecord*: the value the real code computed becomes part of the reachability label (see rt_sym.go)
func vRecordBool(label string, v bool)     { vCover(fmt.Sprintf("rec:%s=%v", label, v)) }
func vRecordU64(label string, v uint64)    { vCover(fmt.Sprintf("rec:%s=%d", label, v)) }
func vRecordString(label string, v string) { vCover(fmt.Sprintf("rec:%s=%x", label, v)) }
func vRecordBytes(label string, v []byte)  { vCover(fmt.Sprintf("rec:%s=%x", label, v)) }

// vAddrSpelling: the address as given, or its all-upper-case bech32 spelling (same account)
func vAddrSpelling(site string, addr string) string {
	if vNondetBool(site + ".upper") {
		return strings.ToUpper(addr)
	}
	return addr
}

// vRepeats: natively Go's map iteration order is random, so order-dependence is observed by repetition
func vRepeats(n int) int { return n }

// the application's account prefix (the symbolic run decides literal addresses with it); packages
// without a TestMain would otherwise replay with the SDK default "cosmos"
func init() {
	defer func() { _ = recover() }() // a sealed config already carries the application's prefix
	sdk.GetConfig().SetBech32PrefixForAccount("panacea", "panaceapub")
}

package __PKG__

// Harness runtime, symbolic variant. The bodies are never executed: the
// gosmt interpreter intercepts every function declared in this file
// (zz_verif_rt.go) by name. A playback variant with real bodies is overlaid
// for native replay.

func vNondetU64(site string) uint64             { return 0 }
func vNondetI64(site string) int64              { return 0 }
func vNondetInt(site string) int                { return 0 }
func vNondetU32(site string) uint32             { return 0 }
func vNondetI32(site string) int32              { return 0 }
func vNondetByte(site string) byte              { return 0 }
func vNondetBool(site string) bool              { return false }
func vNondetBytes(site string, max int) []byte  { return nil }
func vNondetString(site string, max int) string { return "" }
func vNondetAtom(site string) string            { return "" }
func vNondetAddr(site string) string            { return "" }
func vAssume(c bool)                            {}
func vCheck(c bool, label string)               {}
func vCover(label string)                       {}
func vUnreachable(label string)                 {}
func vCatch(f func()) bool                      { return false }
func vBytesEqual(a, b []byte) bool              { return false }
func vHasPrefix(a, p []byte) bool               { return false }
func vInstantiate(i int)                        {}
func vNote(s string)                            {}
func vSymbolic() bool                           { return true }
func vAll(c ...bool) bool                        { return false }
func vAny(c ...bool) bool                        { return false }
func vPickString(idx int, options ...string) string { return "" }
func vAllBytesIn(s string, lo, hi int, set string) bool { return false }
func vNoBytesIn(s string, lo, hi int, set string) bool  { return false }
func vHasPrefixS(s, p string) bool                       { return false }
func vSetAddrMax(n int)                                  {}
func vNondetText(site string, max int) string            { return "" }
func vRecordBool(label string, v bool)                    {}
func vRecordU64(label string, v uint64)                   {}
func vRecordString(label string, v string)                {}
func vRecordBytes(label string, v []byte)                 {}
func vAddrSpelling(site string, addr string) string       { return addr }
func vRepeats(n int) int                                  { return 1 }

package __PKG__

import (
	"time"

	dbm "github.com/cometbft/cometbft-db"
	"github.com/cometbft/cometbft/libs/log"
	tmproto "github.com/cometbft/cometbft/proto/tendermint/types"
	"github.com/cosmos/cosmos-sdk/codec"
	codectypes "github.com/cosmos/cosmos-sdk/codec/types"
	"github.com/cosmos/cosmos-sdk/store"
	storetypes "github.com/cosmos/cosmos-sdk/store/types"
	sdk "github.com/cosmos/cosmos-sdk/types"
	authtypes "github.com/cosmos/cosmos-sdk/x/auth/types"
	"github.com/medibloc/panacea-core/v2/x/pnft/types"
)

func vEnvPnft() (sdk.Context, *Keeper) {
	sdk.GetConfig().SetBech32PrefixForAccount("panacea", "panaceapub")
	key := sdk.NewKVStoreKey(types.StoreKey)
	db := dbm.NewMemDB()
	ms := store.NewCommitMultiStore(db)
	ms.MountStoreWithDB(key, storetypes.StoreTypeIAVL, db)
	if err := ms.LoadLatestVersion(); err != nil {
		panic(err)
	}
	bt := vNondetI64("blocktime")
	ctx := sdk.NewContext(ms, tmproto.Header{Time: time.Unix(0, bt).UTC()}, false, log.NewNopLogger())
	ir := codectypes.NewInterfaceRegistry()
	types.RegisterInterfaces(ir)
	cdc := codec.NewProtoCodec(ir)
	k := NewKeeper(cdc, key, vFakeAccountKeeper{}, nil)
	return ctx, &k
}

type vFakeAccountKeeper struct{}

func (vFakeAccountKeeper) GetAccount(ctx sdk.Context, addr sdk.AccAddress) authtypes.AccountI { return nil }

func (vFakeAccountKeeper) GetModuleAddress(name string) sdk.AccAddress {
	return sdk.AccAddress([]byte("nft-module-account--"))
}

package __PKG__

import (
	sdk "github.com/cosmos/cosmos-sdk/types"
)

func vEnvPnft() (sdk.Context, *Keeper) { return sdk.Context{}, nil }

package __PKG__

import (
	"github.com/cosmos/cosmos-sdk/types/query"
	sdk "github.com/cosmos/cosmos-sdk/types"
	"github.com/medibloc/panacea-core/v2/x/pnft/types"
)

// Bounded-history harnesses for PNFT (C06, C12): a short setup history run
// through the real message server (so every pre-state is reachable), then one
// arbitrary message / query; identifiers are arbitrary byte strings of length
// 1..vIdMax, the x/nft keeper and its key builders are executed at byte level.

func vID(site string) string {
	s := vNondetString(site, vIdMax)
	vAssume(len(s) >= 1)
	return s
}

func vDec(addr string) sdk.AccAddress {
	a, err := sdk.AccAddressFromBech32(addr)
	vAssume(err == nil)
	return a
}

type vDenomG struct { // ghost denom
	id, owner string
	exists    bool
}
type vTokenG struct { // ghost token
	denom, id, owner, creator, name string
	exists                         bool
}

type vScene struct {
	ctx sdk.Context
	k   *Keeper
	ms  msgServer
	A, B, C string
	d0, d1  vDenomG
	t0      vTokenG
}

func vNewScene() *vScene {
	vSetAddrMax(2)
	s := &vScene{}
	s.ctx, s.k = vEnvPnft()
	s.ms = msgServer{s.k}
	s.A, s.B, s.C = vNondetAddr("A"), vNondetAddr("B"), vNondetAddr("C")
	return s
}

func (s *vScene) createDenom(g *vDenomG, site string, id, creator string) {
	_, err := s.ms.CreateDenom(sdk.WrapSDKContext(s.ctx), &types.MsgCreateDenomRequest{Id: id, Name: "n", Symbol: "s", Creator: creator})
	vAssume(err == nil)
	*g = vDenomG{id: id, owner: creator, exists: true}
}

func (s *vScene) mint(g *vTokenG, denom vDenomG, id string) {
	_, err := s.ms.MintPNFT(sdk.WrapSDKContext(s.ctx), &types.MsgMintPNFTRequest{DenomId: denom.id, Id: id, Name: "tok", Creator: denom.owner})
	vAssume(err == nil)
	*g = vTokenG{denom: denom.id, id: id, owner: denom.owner, creator: denom.owner, name: "tok", exists: true}
}

// ---------------- C06: authorization ----------------

func vHarnessPnftAuth() {
	s := vNewScene()
	s.createDenom(&s.d0, "d0", vID("d0"), s.A)
	if vNondetBool("handedOver") { // the creator is no longer the owner
		_, err := s.ms.TransferDenom(sdk.WrapSDKContext(s.ctx), &types.MsgTransferDenomRequest{Id: s.d0.id, Sender: s.A, Receiver: s.B})
		vAssume(err == nil)
		s.d0.owner = s.B
	}
	withToken := vNondetBool("withToken")
	if withToken {
		s.mint(&s.t0, s.d0, vID("t0"))
	}
	if withToken && vNondetBool("tokenMoved") { // the minter is no longer the token owner
		_, err := s.ms.TransferPNFT(sdk.WrapSDKContext(s.ctx), &types.MsgTransferPNFTRequest{DenomId: s.d0.id, Id: s.t0.id, Sender: s.t0.owner, Receiver: s.C})
		vAssume(err == nil)
		s.t0.owner = s.C
	}
	X := vPickString(vNondetInt("actor"), s.A, s.B, s.C, vNondetAddr("X")) // any account
	R := vPickString(vNondetInt("receiver"), s.A, s.B, s.C, vNondetAddr("R"))
	denomOwnerBefore, tokenOwnerBefore := s.d0.owner, s.t0.owner
	c := sdk.WrapSDKContext(s.ctx)
	kind := vNondetInt("kind")
	vAssume(kind >= 0 && kind <= 5)
	if !withToken {
		vAssume(kind != 3 && kind != 4)
	}
	var err error
	switch {
	case kind == 0:
		m := &types.MsgUpdateDenomRequest{Id: s.d0.id, Name: "new", Updater: X}
		_, err = s.ms.UpdateDenom(c, m)
		if err == nil {
			vCover("update-denom accepted")
			vCheck(X == denomOwnerBefore, "C06: a denom is updated only by its current owner")
			vCheck(vBytesEqual(m.GetSigners()[0], vDec(X)), "C06: the updater must sign")
		}
	case kind == 1:
		m := &types.MsgTransferDenomRequest{Id: s.d0.id, Sender: X, Receiver: R}
		_, err = s.ms.TransferDenom(c, m)
		if err == nil {
			vCover("transfer-denom accepted")
			vCheck(X == denomOwnerBefore, "C06: a denom is handed over only by its current owner")
			vCheck(vBytesEqual(m.GetSigners()[0], vDec(X)), "C06: the sender must sign")
			denomOwnerBefore = R
		}
	case kind == 2:
		m := &types.MsgMintPNFTRequest{DenomId: s.d0.id, Id: vID("t1"), Name: "x", Creator: X}
		_, err = s.ms.MintPNFT(c, m)
		if err == nil {
			vCover("mint accepted")
			vCheck(X == denomOwnerBefore, "C06: tokens are minted only by the denom's current owner")
			vCheck(vBytesEqual(m.GetSigners()[0], vDec(X)), "C06: the minter must sign")
			vCheck(!withToken || m.Id != s.t0.id, "C12: a token id exists at most once within a denom")
		}
	case kind == 3:
		m := &types.MsgTransferPNFTRequest{DenomId: s.d0.id, Id: s.t0.id, Sender: X, Receiver: R}
		_, err = s.ms.TransferPNFT(c, m)
		if err == nil {
			vCover("transfer-pnft accepted")
			vCheck(X == tokenOwnerBefore, "C06: a token is transferred only by its current owner")
			vCheck(vBytesEqual(m.GetSigners()[0], vDec(X)), "C06: the sender must sign")
			tokenOwnerBefore = R
		}
	case kind == 4:
		m := &types.MsgBurnPNFTRequest{DenomId: s.d0.id, Id: s.t0.id, Burner: X}
		_, err = s.ms.BurnPNFT(c, m)
		if err == nil {
			vCover("burn accepted")
			vCheck(X == tokenOwnerBefore, "C06: a token is burned only by its current owner")
			vCheck(vBytesEqual(m.GetSigners()[0], vDec(X)), "C06: the burner must sign")
			_, gerr := s.k.GetPNFT(s.ctx, s.d0.id, s.t0.id)
			vCheck(gerr != nil, "C12: a burned token no longer exists")
			return
		}
	case kind == 5:
		m := &types.MsgDeleteDenomRequest{Id: s.d0.id, Remover: X}
		_, err = s.ms.DeleteDenom(c, m)
		if err == nil {
			vCover("delete-denom accepted")
			vCheck(X == denomOwnerBefore, "C06: a denom is deleted only by its current owner")
			vCheck(vBytesEqual(m.GetSigners()[0], vDec(X)), "C06: the remover must sign")
			// C12: every existing token belongs to an existing denom
			if withToken {
				_, terr := s.k.GetPNFT(s.ctx, s.d0.id, s.t0.id)
				_, derr := s.k.GetDenom(s.ctx, s.d0.id)
				vCheck(terr != nil || derr == nil, "C12: every existing token belongs to an existing denom (a denom with live tokens is not deleted)")
			}
			return
		}
	}
	if err != nil {
		vCover("refused")
		return // refused requests are rolled back by baseapp
	}
	// ownership changes only through the matching transfer
	d, derr := s.k.GetDenom(s.ctx, s.d0.id)
	vCheck(derr == nil, "C06: the denom still exists")
	if derr == nil {
		vCheck(d.Owner == denomOwnerBefore, "C06: denom ownership changes only through a hand-over by the owner")
	}
	if !withToken {
		return
	}
	t, terr := s.k.GetPNFT(s.ctx, s.d0.id, s.t0.id)
	vCheck(terr == nil, "C12: the token still exists")
	if terr == nil {
		vCheck(t.Owner == tokenOwnerBefore, "C06: token ownership changes only through transfer by the owner")
		vCheck(vAll(t.Name == s.t0.name, t.Creator == s.t0.creator, t.CreatedAt.Equal(s.ctx.BlockTime()), t.DenomId == s.d0.id, t.Id == s.t0.id), "C12: a token's name, creator and creation time never change after minting")
	}
}

// ---------------- C12: isolation / aliasing ----------------

func vHarnessPnftIsolation() {
	s := vNewScene()
	s.createDenom(&s.d0, "d0", vID("d0"), s.A)
	s.createDenom(&s.d1, "d1", vID("d1"), s.B)
	s.mint(&s.t0, s.d0, vID("t0"))
	// any other (denom, token) pair must read as absent
	qd, qt := vID("qd"), vID("qt")
	vAssume(!vAll(qd == s.d0.id, qt == s.t0.id))
	got, err := s.k.GetPNFT(s.ctx, qd, qt)
	if err == nil {
		vCover("alias read")
		_ = got
	}
	vCheck(err != nil, "C12: distinct (denom, token) pairs never alias one another (a pair that was never minted reads as absent)")
	// listing of the other denom is empty
	l1, lerr := s.k.GetPNFTsByDenomId(s.ctx, s.d1.id)
	vCheck(lerr == nil, "C12: listing succeeds")
	vCheck(len(l1) == 0, "C12: the listing of a denom never shows a token of another denom")
	l0, _ := s.k.GetPNFTsByDenomId(s.ctx, s.d0.id)
	vCheck(len(l0) == 1, "C12: the listing of a denom shows its token exactly once")
	if len(l0) == 1 {
		vCover("listed")
		vCheck(vAll(l0[0].Id == s.t0.id, l0[0].DenomId == s.d0.id, l0[0].Owner == s.A), "C12: the listing agrees with the single-item view")
	}
	lo, oerr := s.k.GetPNFTsByDenomIdAndOwner(s.ctx, s.d0.id, s.B)
	vCheck(oerr == nil, "C12: owner listing succeeds")
	if s.A != s.B {
		vCheck(len(lo) == 0, "C12: tokens of a denom held by an owner lists only that owner's tokens")
	}
	// the holder's own listing, asked for with any valid spelling of the holder's address, agrees
	// field by field with the single-item view
	la, aerr := s.k.GetPNFTsByDenomIdAndOwner(s.ctx, s.d0.id, vAddrSpelling("spelling", s.A))
	vCheck(aerr == nil && len(la) == 1, "C12: tokens of a denom held by an owner lists the owner's token exactly once")
	if aerr == nil && len(la) == 1 {
		one, gerr := s.k.GetPNFT(s.ctx, s.d0.id, s.t0.id)
		if gerr == nil {
			vCover("owner listing compared with the single-item view")
			vCheck(vAll(la[0].Id == one.Id, la[0].DenomId == one.DenomId, la[0].Owner == one.Owner, la[0].Creator == one.Creator, la[0].Name == one.Name),
				"C12: the owner listing agrees with the single-item view (same id, denom, owner, creator, name)")
		}
	}
	// minting in the other denom leaves the first token untouched
	t1 := vID("t1")
	_, merr := s.ms.MintPNFT(sdk.WrapSDKContext(s.ctx), &types.MsgMintPNFTRequest{DenomId: s.d1.id, Id: t1, Name: "other", Creator: s.B})
	if merr == nil {
		vCover("second mint")
		t, terr := s.k.GetPNFT(s.ctx, s.d0.id, s.t0.id)
		vCheck(terr == nil, "C12: minting elsewhere does not remove a token")
		if terr == nil {
			vCheck(vAll(t.Name == "tok", t.Owner == s.A, t.Creator == s.A), "C12: minting elsewhere does not change another token")
		}
	}
}

// ---------------- C12: denoms by owner ----------------

func vHarnessDenomsByOwner() {
	s := vNewScene()
	s.createDenom(&s.d0, "d0", vID("d0"), s.A)
	s.createDenom(&s.d1, "d1", vID("d1"), s.B)
	res, err := s.k.DenomsByOwner(sdk.WrapSDKContext(s.ctx), &types.QueryDenomsByOwnerRequest{Owner: s.A})
	vCheck(err == nil, "C12: denoms-by-owner succeeds")
	if err != nil {
		return
	}
	vCover("denoms by owner answered")
	want := 1
	if s.B == s.A {
		want = 2
	}
	vCheck(len(res.Denoms) == want, "C12: denoms by owner returns exactly the denoms of that owner")
	for _, d := range res.Denoms {
		vCheck(d.Owner == s.A, "C12: denoms by owner returns no denom of another owner")
	}
	// C09 / C20: the same query at the same height gives the same answer, item by item (an answer
	// assembled by ranging over a Go map does not)
	for i := 0; i < vRepeats(24); i++ {
		again, rerr := s.k.DenomsByOwner(sdk.WrapSDKContext(s.ctx), &types.QueryDenomsByOwnerRequest{Owner: s.A})
		vCheck(rerr == nil && len(again.Denoms) == len(res.Denoms), "C09: a repeated denoms-by-owner query at the same height returns the same number of items")
		if rerr == nil && len(again.Denoms) == len(res.Denoms) {
			for j := range res.Denoms {
				vCheck(again.Denoms[j].Id == res.Denoms[j].Id, "C09: a repeated query at the same height returns the same items in the same order")
			}
		}
	}
	if want == 2 {
		vCover("an owner with two denoms queried twice")
	}
	all, aerr := s.k.Denoms(sdk.WrapSDKContext(s.ctx), &types.QueryDenomsRequest{Pagination: &query.PageRequest{Limit: 10}})
	vCheck(aerr == nil && len(all.Denoms) == 2, "C12: the full denom listing shows each denom once")
}

// ---------------- C06/C12: a request about one denom never touches another ----------------

func vHarnessPnftOtherDenomUntouched() {
	s := vNewScene()
	s.createDenom(&s.d0, "d0", vID("d0"), s.A)
	s.createDenom(&s.d1, "d1", vID("d1"), s.B)
	c := sdk.WrapSDKContext(s.ctx)
	var err error
	switch vShapeP("kind", 2) {
	case 0:
		_, err = s.ms.DeleteDenom(c, &types.MsgDeleteDenomRequest{Id: s.d0.id, Remover: s.A})
	case 1:
		_, err = s.ms.UpdateDenom(c, &types.MsgUpdateDenomRequest{Id: s.d0.id, Name: "renamed", Updater: s.A})
	case 2:
		_, err = s.ms.TransferDenom(c, &types.MsgTransferDenomRequest{Id: s.d0.id, Sender: s.A, Receiver: s.C})
	}
	if err != nil {
		return
	}
	vCover("request on the first denom accepted")
	d, derr := s.k.GetDenom(s.ctx, s.d1.id)
	vCheck(derr == nil, "C06/C12: a request about one denom never deletes another denom (ids may be prefixes of one another)")
	if derr == nil {
		vCheck(vAll(d.Owner == s.B, d.Name == "n", d.Id == s.d1.id), "C06/C12: a request about one denom never changes another denom")
	}
}

func vShapeP(site string, max int) int {
	n := vNondetInt(site)
	vAssume(n >= 0 && n <= max)
	for i := 0; i <= max; i++ {
		if n == i {
			return i
		}
	}
	return 0
}

// ---------------- C17: PNFT query handlers are total ----------------

func vHarnessPnftQueriesTotal() {
	s := vNewScene()
	s.createDenom(&s.d0, "d0", vID("d0"), s.A)
	if vNondetBool("withToken") {
		s.mint(&s.t0, s.d0, vID("t0"))
	}
	c := sdk.WrapSDKContext(s.ctx)
	qd, qt := vNondetString("qd", vIdMax+1), vNondetString("qt", vIdMax+1) // may be empty, may contain 0x00
	owner := s.A
	if vNondetBool("junkOwner") {
		owner = vNondetAtom("junk")
	}
	switch vShapeP("query", 6) {
	case 0:
		_, _ = s.k.Denoms(c, nil)
		_, err := s.k.Denoms(c, &types.QueryDenomsRequest{})
		vCheck(err == nil, "C17: Denoms answers")
	case 1:
		_, _ = s.k.DenomsByOwner(c, nil)
		_, _ = s.k.DenomsByOwner(c, &types.QueryDenomsByOwnerRequest{Owner: owner})
	case 2:
		_, _ = s.k.Denom(c, nil)
		_, _ = s.k.Denom(c, &types.QueryDenomRequest{Id: qd})
	case 3:
		_, _ = s.k.PNFTs(c, nil)
		_, _ = s.k.PNFTs(c, &types.QueryPNFTsRequest{DenomId: qd})
	case 4:
		_, _ = s.k.PNFTsByDenomOwner(c, nil)
		_, _ = s.k.PNFTsByDenomOwner(c, &types.QueryPNFTsByDenomOwnerRequest{DenomId: qd, Owner: owner})
	case 5:
		_, _ = s.k.PNFT(c, nil)
		_, _ = s.k.PNFT(c, &types.QueryPNFTRequest{DenomId: qd, Id: qt})
	case 6:
		_, _ = s.k.PNFT(c, &types.QueryPNFTRequest{DenomId: s.d0.id, Id: qt})
	}
	vCover("pnft query returned") // any panic above escapes = violation
}

package __PKG__

import (
	sdk "github.com/cosmos/cosmos-sdk/types"
	"github.com/cosmos/cosmos-sdk/types/query"
	"github.com/medibloc/panacea-core/v2/x/pnft/types"
)

// C17 for the paginated Denoms query with a client-held paging key (the next_key of an earlier
// forward page), any page size, either direction.
func vHarnessPnftDenomsFromKey() {
	s := vNewScene()
	s.createDenom(&s.d0, "d0", vID("d0"), s.A)
	s.createDenom(&s.d1, "d1", vID("d1"), s.B)
	if vNondetBool("third") {
		var d2 vDenomG
		s.createDenom(&d2, "d2", vID("d2"), s.C)
	}
	c := sdk.WrapSDKContext(s.ctx)
	first, err := s.k.Denoms(c, &types.QueryDenomsRequest{Pagination: &query.PageRequest{Limit: 1}})
	vAssume(err == nil)
	key := first.Pagination.NextKey
	vAssume(len(key) > 0)
	l := vNondetU64("limit")
	vAssume(l <= 3)
	rev := vNondetBool("reverse")
	_, _ = s.k.Denoms(c, &types.QueryDenomsRequest{Pagination: &query.PageRequest{Key: key, Limit: l, Reverse: rev}})
	if rev {
		vCover("denoms asked backwards from a held key")
	} else {
		vCover("denoms asked forwards from a held key")
	}
}

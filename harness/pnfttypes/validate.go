package __PKG__

import sdk "github.com/cosmos/cosmos-sdk/types"

// C16/C17 for the seven PNFT message types: accepted iff required identifiers,
// name, symbol are present (identifiers that are created must not contain the
// x/nft key delimiter 0x00) and actor addresses are well-formed; GetSigners
// after successful validation never panics.

type vAddr struct {
	s  string
	ok bool
}

func vAnyAddr(site string) vAddr {
	switch {
	case vNondetBool(site + ".valid"):
		return vAddr{vNondetAddr(site), true}
	case vNondetBool(site + ".empty"):
		return vAddr{"", false}
	}
	j := vNondetAtom(site + ".junk")
	_, jerr := sdk.AccAddressFromBech32(j)
	vAssume(jerr != nil)
	return vAddr{j, false}
}

func vNoNul(s string) bool { return vNoBytesIn(s, 0, len(s), "\x00") }

func vSigner(msg sdk.Msg, label string) {
	s := msg.GetSigners() // a panic escapes = violation
	vCheck(len(s) == 1, label)
}

func vHarnessCreateDenomValidate() {
	a := vAnyAddr("creator")
	msg := &MsgCreateDenomRequest{Id: vNondetString("id", 8), Name: vNondetString("name", 4), Symbol: vNondetString("symbol", 4), Description: vNondetAtom("desc"), Uri: vNondetAtom("uri"), UriHash: vNondetAtom("urihash"), Data: vNondetAtom("data"), Creator: a.s}
	err := msg.ValidateBasic()
	want := vAll(len(msg.Id) > 0, vNoNul(msg.Id), len(msg.Name) > 0, len(msg.Symbol) > 0, a.ok)
	vCheck((err == nil) == want, "C16: CreateDenom accepted iff id (no 0x00), name, symbol present and creator well-formed")
	if err == nil {
		vCover("create-denom accepted")
		vSigner(msg, "C17: signer extraction after successful validation")
	} else {
		vCover("create-denom rejected")
	}
}

func vHarnessUpdateDenomValidate() {
	a := vAnyAddr("updater")
	msg := &MsgUpdateDenomRequest{Id: vNondetString("id", 8), Name: vNondetAtom("name"), Updater: a.s}
	err := msg.ValidateBasic()
	vCheck((err == nil) == vAll(len(msg.Id) > 0, a.ok), "C16: UpdateDenom accepted iff id present and updater well-formed")
	if err == nil {
		vCover("update-denom accepted")
		vSigner(msg, "C17: signer extraction after successful validation")
	}
}

func vHarnessDeleteDenomValidate() {
	a := vAnyAddr("remover")
	msg := &MsgDeleteDenomRequest{Id: vNondetString("id", 8), Remover: a.s}
	err := msg.ValidateBasic()
	vCheck((err == nil) == vAll(len(msg.Id) > 0, a.ok), "C16: DeleteDenom accepted iff id present and remover well-formed")
	if err == nil {
		vCover("delete-denom accepted")
		vSigner(msg, "C17: signer extraction after successful validation")
	}
}

func vHarnessTransferDenomValidate() {
	a, r := vAnyAddr("sender"), vAnyAddr("receiver")
	msg := &MsgTransferDenomRequest{Id: vNondetString("id", 8), Sender: a.s, Receiver: r.s}
	err := msg.ValidateBasic()
	vCheck((err == nil) == vAll(len(msg.Id) > 0, a.ok, r.ok), "C16: TransferDenom accepted iff id present, sender and receiver well-formed")
	if err == nil {
		vCover("transfer-denom accepted")
		vSigner(msg, "C17: signer extraction after successful validation")
	}
}

func vHarnessMintValidate() {
	a := vAnyAddr("creator")
	msg := &MsgMintPNFTRequest{DenomId: vNondetString("denom", 8), Id: vNondetString("id", 8), Name: vNondetString("name", 4), Description: vNondetAtom("desc"), Uri: vNondetAtom("uri"), UriHash: vNondetAtom("urihash"), Data: vNondetAtom("data"), Creator: a.s}
	err := msg.ValidateBasic()
	want := vAll(len(msg.DenomId) > 0, len(msg.Id) > 0, vNoNul(msg.Id), len(msg.Name) > 0, a.ok)
	vCheck((err == nil) == want, "C16: MintPNFT accepted iff denom id, id (no 0x00), name present and creator well-formed")
	if err == nil {
		vCover("mint accepted")
		vSigner(msg, "C17: signer extraction after successful validation")
	} else {
		vCover("mint rejected")
	}
}

func vHarnessTransferPNFTValidate() {
	a, r := vAnyAddr("sender"), vAnyAddr("receiver")
	msg := &MsgTransferPNFTRequest{DenomId: vNondetString("denom", 8), Id: vNondetString("id", 8), Sender: a.s, Receiver: r.s}
	err := msg.ValidateBasic()
	vCheck((err == nil) == vAll(len(msg.DenomId) > 0, len(msg.Id) > 0, a.ok, r.ok), "C16: TransferPNFT accepted iff ids present, sender and receiver well-formed")
	if err == nil {
		vCover("transfer-pnft accepted")
		vSigner(msg, "C17: signer extraction after successful validation")
	}
}

func vHarnessBurnValidate() {
	a := vAnyAddr("burner")
	msg := &MsgBurnPNFTRequest{DenomId: vNondetString("denom", 8), Id: vNondetString("id", 8), Burner: a.s}
	err := msg.ValidateBasic()
	vCheck((err == nil) == vAll(len(msg.DenomId) > 0, len(msg.Id) > 0, a.ok), "C16: BurnPNFT accepted iff ids present and burner well-formed")
	if err == nil {
		vCover("burn accepted")
		vSigner(msg, "C17: signer extraction after successful validation")
	}
}

package __PKG__

import (
	sdk "github.com/cosmos/cosmos-sdk/types"
	"github.com/medibloc/panacea-core/v2/x/pnft/keeper"
	"github.com/medibloc/panacea-core/v2/x/pnft/types"
)

// C08 (PNFT): export -> validate -> import reproduces denoms and tokens with
// their *current* owners, creators and creation times, including transferred
// tokens and handed-over denoms.

func vHarnessPnftGenesisRoundTrip() {
	vSetAddrMax(2)
	ctx1, k1 := vEnvPnftG()
	ms := keeper.NewMsgServerImpl(k1)
	A, B, C := vNondetAddr("A"), vNondetAddr("B"), vNondetAddr("C")
	// the receiver of the hand-over may be written in another valid spelling of its address
	// (natively: upper-case bech32); the owner string is state and must survive the round trip as it is
	C = vAddrSpelling("C.spelling", C)
	d, t := vNondetString("denom", vIdMax), vNondetString("token", vIdMax)
	c1 := sdk.WrapSDKContext(ctx1)
	_, err := ms.CreateDenom(c1, &types.MsgCreateDenomRequest{Id: d, Name: "n", Symbol: "s", Creator: A})
	vAssume(err == nil)
	_, err = ms.MintPNFT(c1, &types.MsgMintPNFTRequest{DenomId: d, Id: t, Name: "tok", Creator: A})
	vAssume(err == nil)
	owner, denomOwner := A, A
	if vNondetBool("tokenTransferred") {
		_, err = ms.TransferPNFT(c1, &types.MsgTransferPNFTRequest{DenomId: d, Id: t, Sender: A, Receiver: B})
		vAssume(err == nil)
		owner = B
	}
	if vNondetBool("denomHandedOver") {
		_, err = ms.TransferDenom(c1, &types.MsgTransferDenomRequest{Id: d, Sender: A, Receiver: C})
		vAssume(err == nil)
		denomOwner = C
	}
	// a second denom with its own token (exercises grouping / ordering in export)
	two := vNondetBool("secondDenom")
	d2, t2 := vNondetString("denom2", vIdMax), vNondetString("token2", vIdMax)
	if two {
		_, err = ms.CreateDenom(c1, &types.MsgCreateDenomRequest{Id: d2, Name: "n2", Symbol: "s2", Creator: B})
		vAssume(err == nil)
		_, err = ms.MintPNFT(c1, &types.MsgMintPNFTRequest{DenomId: d2, Id: t2, Name: "tok2", Creator: B})
		vAssume(err == nil)
	}
	gs := ExportGenesis(ctx1, k1)
	if two {
		vCover("two denoms exported")
		// exporting the same state twice gives the same genesis (same order of denoms and tokens)
		gsAgain := ExportGenesis(ctx1, k1)
		vCheck(len(gs.Pnfts) == 2 && len(gsAgain.Pnfts) == 2 && len(gs.Denoms) == 2 && len(gsAgain.Denoms) == 2, "C08: both denoms and tokens are exported")
		if len(gs.Pnfts) == 2 && len(gsAgain.Pnfts) == 2 {
			vCheck(vAll(gs.Pnfts[0].Id == gsAgain.Pnfts[0].Id, gs.Pnfts[0].DenomId == gsAgain.Pnfts[0].DenomId, gs.Pnfts[1].Id == gsAgain.Pnfts[1].Id, gs.Pnfts[1].DenomId == gsAgain.Pnfts[1].DenomId), "C08: exporting the same state twice lists the tokens in the same order")
		}
	}
	vCheck(gs.ValidateBasic() == nil, "C08: the exported PNFT genesis passes the module's own validation")
	ctx2, k2 := vEnvPnftG()
	InitGenesis(ctx2, k2, *gs) // a panic here escapes = violation
	vCover("pnft genesis imported")
	gd, derr := k2.GetDenom(ctx2, d)
	vCheck(derr == nil, "C08: denom reproduced")
	if derr == nil {
		vCheck(gd.Owner == denomOwner, "C08: denom reproduced with its current owner")
	}
	gt, terr := k2.GetPNFT(ctx2, d, t)
	vCheck(terr == nil, "C08: token reproduced")
	if terr == nil {
		vCheck(gt.Owner == owner, "C08: token reproduced with its current owner")
		vCheck(vAll(gt.Creator == A, gt.Name == "tok", gt.CreatedAt.Equal(ctx1.BlockTime())), "C08: token reproduced with creator and creation time")
	}
}

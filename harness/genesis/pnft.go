package __PKG__

import (
	sdk "github.com/cosmos/cosmos-sdk/types"
	"github.com/medibloc/panacea-core/v2/x/pnft/keeper"
	"github.com/medibloc/panacea-core/v2/x/pnft/types"
)

// C08 (PNFT): export -> validate -> import reproduces denoms and tokens with
// their *current* owners, creators and creation times, including transferred
// tokens and handed-over denoms.

func vHarnessPnftGenesisRoundTrip() {
	vSetAddrMax(2)
	ctx1, k1 := vEnvPnftG()
	ms := keeper.NewMsgServerImpl(k1)
	A, B, C := vNondetAddr("A"), vNondetAddr("B"), vNondetAddr("C")
	d, t := vNondetString("denom", vIdMax), vNondetString("token", vIdMax)
	c1 := sdk.WrapSDKContext(ctx1)
	_, err := ms.CreateDenom(c1, &types.MsgCreateDenomRequest{Id: d, Name: "n", Symbol: "s", Creator: A})
	vAssume(err == nil)
	_, err = ms.MintPNFT(c1, &types.MsgMintPNFTRequest{DenomId: d, Id: t, Name: "tok", Creator: A})
	vAssume(err == nil)
	owner, denomOwner := A, A
	if vNondetBool("tokenTransferred") {
		_, err = ms.TransferPNFT(c1, &types.MsgTransferPNFTRequest{DenomId: d, Id: t, Sender: A, Receiver: B})
		vAssume(err == nil)
		owner = B
	}
	if vNondetBool("denomHandedOver") {
		_, err = ms.TransferDenom(c1, &types.MsgTransferDenomRequest{Id: d, Sender: A, Receiver: C})
		vAssume(err == nil)
		denomOwner = C
	}
	gs := ExportGenesis(ctx1, k1)
	vCheck(gs.ValidateBasic() == nil, "C08: the exported PNFT genesis passes the module's own validation")
	ctx2, k2 := vEnvPnftG()
	InitGenesis(ctx2, k2, *gs) // a panic here escapes = violation
	vCover("pnft genesis imported")
	gd, derr := k2.GetDenom(ctx2, d)
	vCheck(derr == nil, "C08: denom reproduced")
	if derr == nil {
		vCheck(gd.Owner == denomOwner, "C08: denom reproduced with its current owner")
	}
	gt, terr := k2.GetPNFT(ctx2, d, t)
	vCheck(terr == nil, "C08: token reproduced")
	if terr == nil {
		vCheck(gt.Owner == owner, "C08: token reproduced with its current owner")
		vCheck(vAll(gt.Creator == A, gt.Name == "tok", gt.CreatedAt.Equal(ctx1.BlockTime())), "C08: token reproduced with creator and creation time")
	}
}

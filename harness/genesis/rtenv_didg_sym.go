package __PKG__

import (
	sdk "github.com/cosmos/cosmos-sdk/types"
	"github.com/medibloc/panacea-core/v2/x/did/keeper"
)

func vEnvDidG() (sdk.Context, keeper.Keeper) { return sdk.Context{}, keeper.Keeper{} }

package __PKG__

import (
	"github.com/medibloc/panacea-core/v2/x/did/types"
)

// C08 (DID): export -> validate -> import reproduces documents, sequences and
// tombstones.

func vHarnessDidGenesisRoundTrip() {
	ctx1, k1 := vEnvDidG()
	d1, d2 := vNondetString("did1", 60), vNondetString("did2", 60)
	vAssume(types.ValidateDID(d1))
	vAssume(types.ValidateDID(d2))
	vAssume(d1 != d2)
	// an active document that passed message validation when it was stored
	m := &types.VerificationMethod{Id: d1 + "#" + vNondetAtom("frag"), Type: types.ES256K_2019, Controller: d1, PublicKeyBase58: vNondetString("key", 48)}
	doc := &types.DIDDocument{Id: d1, Contexts: &types.JSONStringOrStrings{types.ContextDIDV1}, VerificationMethods: []*types.VerificationMethod{m},
		Authentications: []types.VerificationRelationship{types.NewVerificationRelationship(m.Id)}}
	vAssume((&types.MsgCreateDIDRequest{Did: d1, Document: doc, VerificationMethodId: m.Id, Signature: []byte{1}, FromAddress: vNondetAddr("from")}).ValidateBasic() == nil)
	active := types.NewDIDDocumentWithSeq(doc, vNondetU64("seq1"))
	k1.SetDIDDocument(ctx1, d1, active)
	hasTomb := vNondetBool("hasTombstone")
	tseq := vNondetU64("seq2")
	vAssume(tseq != 0)
	tomb := types.NewDIDDocumentWithSeq(&types.DIDDocument{}, tseq)
	if hasTomb {
		k1.SetDIDDocument(ctx1, d2, tomb)
	}
	gs := ExportGenesis(ctx1, k1)
	vCheck(gs.Validate() == nil, "C08: the exported DID genesis passes the module's own validation")
	ctx2, k2 := vEnvDidG()
	InitGenesis(ctx2, k2, *gs)
	vCover("did genesis imported")
	g1 := k2.GetDIDDocument(ctx2, d1)
	vCheck(g1.Document != nil && g1.Sequence == active.Sequence, "C08: active DID reproduced with its sequence")
	if g1.Document != nil {
		vCheck(g1.Document.Id == d1 && len(g1.Document.VerificationMethods) == 1 && len(g1.Document.Authentications) == 1, "C08: document shape reproduced")
		if len(g1.Document.VerificationMethods) == 1 {
			gm := g1.Document.VerificationMethods[0]
			vCheck(vAll(gm.Id == m.Id, gm.Type == m.Type, gm.Controller == m.Controller, gm.PublicKeyBase58 == m.PublicKeyBase58), "C08: verification method reproduced")
		}
	}
	g2 := k2.GetDIDDocument(ctx2, d2)
	if hasTomb {
		vCover("tombstone exported")
		vCheck(g2.Document != nil && g2.Deactivated() && g2.Sequence == tseq, "C05/C08: the tombstone survives export/import with its sequence")
	} else {
		vCheck(g2.Document == nil, "C08: no DID invented")
	}
	gs2 := ExportGenesis(ctx2, k2)
	vCheck(len(gs2.Documents) == len(gs.Documents), "C08: re-export has the same number of documents")
}

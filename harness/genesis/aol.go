package __PKG__

import (
	sdk "github.com/cosmos/cosmos-sdk/types"
	"github.com/medibloc/panacea-core/v2/x/aol/types"
)

// C08 (AOL): export -> validate -> import on a fresh store reproduces every
// entry; the re-export equals the export. Map iteration order in InitGenesis
// and store iteration order in ExportGenesis are explored symbolically.

func vDecG(addr string) sdk.AccAddress {
	a, err := sdk.AccAddressFromBech32(addr)
	vAssume(err == nil)
	return a
}

func vHarnessAolGenesisRoundTrip() {
	ctx1, k1 := vEnvAolG()
	oStr, wStr := vNondetAddr("owner"), vNondetAddr("writer")
	o, w := vDecG(oStr), vDecG(wStr)
	t1, t2 := vNondetAtom("topic1"), vNondetAtom("topic2")
	// topic names in reachable states passed message validation when they were created
	vAssume((&types.MsgCreateTopicRequest{TopicName: t1, OwnerAddress: oStr}).ValidateBasic() == nil)
	vAssume((&types.MsgCreateTopicRequest{TopicName: t2, OwnerAddress: oStr}).ValidateBasic() == nil)
	vAssume(t1 != t2)
	ownerRec := types.Owner{TotalTopics: vNondetU64("totalTopics")}
	k1.SetOwner(ctx1, types.OwnerCompositeKey{OwnerAddress: o}, ownerRec)
	top1 := types.Topic{TotalRecords: vNondetU64("tr1"), TotalWriters: vNondetU64("tw1"), Description: vNondetAtom("desc1")}
	vAssume(len(top1.Description) <= 5000)
	tk1 := types.TopicCompositeKey{OwnerAddress: o, TopicName: t1}
	k1.SetTopic(ctx1, tk1, top1)
	has2 := true
	top2 := types.Topic{TotalRecords: vNondetU64("tr2"), Description: vNondetAtom("desc2")}
	vAssume(len(top2.Description) <= 5000)
	tk2 := types.TopicCompositeKey{OwnerAddress: o, TopicName: t2}
	if has2 {
		k1.SetTopic(ctx1, tk2, top2)
	}
	wk := types.WriterCompositeKey{OwnerAddress: o, TopicName: t1, WriterAddress: w}
	wr := types.Writer{Moniker: vNondetAtom("moniker"), Description: vNondetAtom("wdesc"), NanoTimestamp: vNondetI64("wts")}
	// the writer passed message validation when it was added (an empty moniker is legal)
	vAssume((&types.MsgAddWriterRequest{TopicName: t1, Moniker: wr.Moniker, Description: wr.Description, WriterAddress: wStr, OwnerAddress: oStr}).ValidateBasic() == nil)
	hasW := true
	if hasW {
		k1.SetWriter(ctx1, wk, wr)
	}
	rk := types.RecordCompositeKey{OwnerAddress: o, TopicName: t1, Offset: vNondetU64("offset")}
	// empty record keys/values are legal
	// the record's writer is any account: it may have been removed from the writer list since
	// (create-topic, add-writer, add-record, delete-writer is a reachable history)
	rec := types.Record{Key: vNondetBytes("rkey", 70), Value: vNondetBytes("rvalue", 100), NanoTimestamp: vNondetI64("rts"), WriterAddress: vNondetAddr("recordWriter")}
	hasR := true
	if hasR {
		k1.SetRecord(ctx1, rk, rec)
	}

	// a second record with independent content (exercises reuse of variables across iterations in GetAll*)
	rk2 := types.RecordCompositeKey{OwnerAddress: o, TopicName: t1, Offset: vNondetU64("offset2")}
	vAssume(rk2.Offset != rk.Offset)
	rec2 := types.Record{Key: vNondetBytes("rkey2", 70), Value: vNondetBytes("rvalue2", 100), NanoTimestamp: vNondetI64("rts2"), WriterAddress: wStr}
	hasR2 := hasR && vNondetBool("hasRecord2")
	if hasR2 {
		// with two records both are non-empty (a single record may be empty); keeps the
		// wire-presence case split of the CODEC merge model small
		vAssume(vAll(len(rec.Key) > 0, len(rec.Value) > 0, rec.NanoTimestamp != 0, len(rec2.Key) > 0, len(rec2.Value) > 0, rec2.NanoTimestamp != 0))
		k1.SetRecord(ctx1, rk2, rec2)
	}

	gs := ExportGenesis(ctx1, k1)
	vCheck(gs.Validate() == nil, "C08: the exported AOL genesis passes the module's own validation")
	ctx2, k2 := vEnvAolG()
	InitGenesis(ctx2, k2, *gs) // a panic here escapes = violation
	vCover("aol genesis imported")

	go2 := k2.GetOwner(ctx2, types.OwnerCompositeKey{OwnerAddress: o})
	vCheck(k2.HasOwner(ctx2, types.OwnerCompositeKey{OwnerAddress: o}) && go2.TotalTopics == ownerRec.TotalTopics, "C08: owner entry reproduced")
	g1 := k2.GetTopic(ctx2, tk1)
	vCheck(k2.HasTopic(ctx2, tk1), "C08: topic reproduced")
	vCheck(vAll(g1.TotalRecords == top1.TotalRecords, g1.TotalWriters == top1.TotalWriters, g1.Description == top1.Description), "C08: topic counters and description reproduced")
	vCheck(k2.HasTopic(ctx2, tk2) == has2, "C08: no topic invented or lost")
	if has2 {
		g2 := k2.GetTopic(ctx2, tk2)
		vCheck(vAll(g2.TotalRecords == top2.TotalRecords, g2.Description == top2.Description), "C08: second topic reproduced")
	}
	vCheck(k2.HasWriter(ctx2, wk) == hasW, "C08: no writer invented or lost")
	if hasW {
		gw := k2.GetWriter(ctx2, wk)
		vCheck(vAll(gw.Moniker == wr.Moniker, gw.Description == wr.Description, gw.NanoTimestamp == wr.NanoTimestamp), "C08: writer reproduced with its timestamp")
	}
	vCheck(k2.HasRecord(ctx2, rk) == hasR, "C08: no record invented or lost")
	if hasR {
		gr := k2.GetRecord(ctx2, rk)
		vCheck(vAll(vBytesEqual(gr.Key, rec.Key), vBytesEqual(gr.Value, rec.Value), gr.NanoTimestamp == rec.NanoTimestamp, gr.WriterAddress == rec.WriterAddress), "C08: record reproduced with key, value, writer and timestamp")
	}
	if hasR2 {
		vCover("two records exported")
		gr2 := k2.GetRecord(ctx2, rk2)
		vCheck(k2.HasRecord(ctx2, rk2), "C08: second record reproduced")
		vCheck(vAll(vBytesEqual(gr2.Key, rec2.Key), vBytesEqual(gr2.Value, rec2.Value), gr2.NanoTimestamp == rec2.NanoTimestamp), "C08: second record reproduced with key, value and timestamp")
	}
	// the import's own export has the same shape
	gs2 := ExportGenesis(ctx2, k2)
	vCheck(vAll(len(gs2.Owners) == len(gs.Owners), len(gs2.Topics) == len(gs.Topics), len(gs2.Writers) == len(gs.Writers), len(gs2.Records) == len(gs.Records)), "C08: re-export has the same number of entries")
}

package __PKG__

import (
	"time"

	dbm "github.com/cometbft/cometbft-db"
	"github.com/cometbft/cometbft/libs/log"
	tmproto "github.com/cometbft/cometbft/proto/tendermint/types"
	"github.com/cosmos/cosmos-sdk/codec"
	codectypes "github.com/cosmos/cosmos-sdk/codec/types"
	"github.com/cosmos/cosmos-sdk/store"
	storetypes "github.com/cosmos/cosmos-sdk/store/types"
	sdk "github.com/cosmos/cosmos-sdk/types"
	"github.com/medibloc/panacea-core/v2/x/aol/keeper"
	"github.com/medibloc/panacea-core/v2/x/aol/types"
)

func vEnvAolG() (sdk.Context, keeper.Keeper) {
	sdk.GetConfig().SetBech32PrefixForAccount("panacea", "panaceapub")
	key := sdk.NewKVStoreKey(types.StoreKey)
	mem := storetypes.NewMemoryStoreKey(types.MemStoreKey)
	db := dbm.NewMemDB()
	ms := store.NewCommitMultiStore(db)
	ms.MountStoreWithDB(key, storetypes.StoreTypeIAVL, db)
	if err := ms.LoadLatestVersion(); err != nil {
		panic(err)
	}
	bt := vNondetI64("blocktime")
	ctx := sdk.NewContext(ms, tmproto.Header{Time: time.Unix(0, bt).UTC()}, false, log.NewNopLogger())
	cdc := codec.NewProtoCodec(codectypes.NewInterfaceRegistry())
	return ctx, *keeper.NewKeeper(cdc, key, mem)
}

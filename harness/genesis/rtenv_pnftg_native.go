package __PKG__

import (
	"time"

	dbm "github.com/cometbft/cometbft-db"
	"github.com/cometbft/cometbft/libs/log"
	tmproto "github.com/cometbft/cometbft/proto/tendermint/types"
	"github.com/cosmos/cosmos-sdk/codec"
	codectypes "github.com/cosmos/cosmos-sdk/codec/types"
	"github.com/cosmos/cosmos-sdk/store"
	storetypes "github.com/cosmos/cosmos-sdk/store/types"
	sdk "github.com/cosmos/cosmos-sdk/types"
	authtypes "github.com/cosmos/cosmos-sdk/x/auth/types"
	"github.com/medibloc/panacea-core/v2/x/pnft/keeper"
	"github.com/medibloc/panacea-core/v2/x/pnft/types"
)

type vFakeAK struct{}

func (vFakeAK) GetModuleAddress(name string) sdk.AccAddress { return sdk.AccAddress([]byte("nft-module-account--")) }
func (vFakeAK) GetAccount(ctx sdk.Context, addr sdk.AccAddress) authtypes.AccountI { return nil }

func vEnvPnftG() (sdk.Context, *keeper.Keeper) {
	sdk.GetConfig().SetBech32PrefixForAccount("panacea", "panaceapub")
	key := sdk.NewKVStoreKey(types.StoreKey)
	db := dbm.NewMemDB()
	ms := store.NewCommitMultiStore(db)
	ms.MountStoreWithDB(key, storetypes.StoreTypeIAVL, db)
	if err := ms.LoadLatestVersion(); err != nil {
		panic(err)
	}
	bt := vNondetI64("blocktime")
	ctx := sdk.NewContext(ms, tmproto.Header{Time: time.Unix(0, bt).UTC()}, false, log.NewNopLogger())
	ir := codectypes.NewInterfaceRegistry()
	types.RegisterInterfaces(ir)
	k := keeper.NewKeeper(codec.NewProtoCodec(ir), key, vFakeAK{}, nil)
	return ctx, &k
}

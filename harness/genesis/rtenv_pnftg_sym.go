package __PKG__

import (
	sdk "github.com/cosmos/cosmos-sdk/types"
	"github.com/medibloc/panacea-core/v2/x/pnft/keeper"
)

func vEnvPnftG() (sdk.Context, *keeper.Keeper) { return sdk.Context{}, nil }

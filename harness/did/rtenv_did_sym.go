package __PKG__

import (
	sdk "github.com/cosmos/cosmos-sdk/types"
	"github.com/medibloc/panacea-core/v2/x/did/types"
)

// symbolic mode: all of these are intercepted by gosmt.

type vKey struct {
	PubB58 string
	Pub    []byte
	ID     int
}

func vEnvDid() (sdk.Context, Keeper)                              { return sdk.Context{}, Keeper{} }
func vKeyPair(site string) vKey                                    { return vKey{} }
func vSign(k vKey, doc *types.DIDDocument, seq uint64) []byte      { return nil }
func vDocEqual(a, b *types.DIDDocument) bool                       { return false }
func vDocSeqEqual(a, b types.DIDDocumentWithSeq) bool              { return false }
func vB64(s string) string                                         { return "" }
func vPickKey(second bool, a, b vKey) vKey                         { return a }
func vSignBytes(k vKey, msg []byte) []byte                          { return nil }

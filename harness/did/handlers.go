package __PKG__

import (
	"github.com/btcsuite/btcutil/base58"
	sdk "github.com/cosmos/cosmos-sdk/types"
	"github.com/medibloc/panacea-core/v2/x/did/types"
)

// One-step harnesses for the DID handlers (C03, C04, C05, C11).
//
// Cryptography is idealised: key pairs come from vKeyPair, valid signatures
// only from vSign (over a chosen document and sequence); everything else the
// adversary controls is a free symbolic value: which key each method lists,
// method ids and types, which relationships list which methods, the signed
// content, the signed sequence, the verification-method id named in the
// message, the relaying account.

type vWorld struct {
	k0, k1 vKey
	junk   string // base58 of bytes that are neither key
}

func vNewWorld() *vWorld {
	w := &vWorld{k0: vKeyPair("k0"), k1: vKeyPair("k1")}
	jb := vNondetBytes("junkKey", 40)
	vAssume(!vBytesEqual(jb, w.k0.Pub))
	vAssume(!vBytesEqual(jb, w.k1.Pub))
	w.junk = base58.Encode(jb)
	return w
}

// a verification method with adversary-chosen id, type and key
func (w *vWorld) method(site string, ids []string) *types.VerificationMethod {
	typ := vPickString(vNondetInt(site+".type"), types.ES256K_2019, types.ES256K_2018, types.ED25519_2018, types.SS256K_2019, "")
	return &types.VerificationMethod{
		Id:              vPickString(vNondetInt(site+".id"), ids...),
		Type:            typ,
		Controller:      vNondetAtom(site + ".controller"),
		PublicKeyBase58: vPickString(vNondetInt(site+".key"), w.k0.PubB58, w.k1.PubB58, w.junk),
	}
}

func (w *vWorld) relationship(site string, ids []string) types.VerificationRelationship {
	if vNondetBool(site + ".dedicated") {
		return types.NewVerificationRelationshipDedicated(*w.method(site+".m", ids))
	}
	return types.NewVerificationRelationship(vPickString(vNondetInt(site+".ref"), ids...))
}

// document of a bounded shape: nVM methods, nAuth authentication entries, one
// optional assertion-method entry.
func (w *vWorld) document(site string, id string, ids []string, nVM, nAuth int) *types.DIDDocument {
	doc := &types.DIDDocument{Id: id, Contexts: &types.JSONStringOrStrings{types.ContextDIDV1}}
	for i := 0; i < nVM; i++ {
		doc.VerificationMethods = append(doc.VerificationMethods, w.method(site+".vm", ids))
	}
	for i := 0; i < nAuth; i++ {
		doc.Authentications = append(doc.Authentications, w.relationship(site+".auth", ids))
	}
	// a method listed only under another relationship (must confer no rights)
	doc.AssertionMethods = append(doc.AssertionMethods, types.NewVerificationRelationshipDedicated(*w.method(site+".assert", ids)))
	return doc
}

func vShape(site string, max int) int {
	n := vNondetInt(site)
	vAssume(n >= 0 && n <= max)
	for i := 0; i <= max; i++ { // concretise: the shape is explored by forking
		if n == i {
			return i
		}
	}
	return 0
}

// ---- reference semantics of "a valid proof by a current authentication key"

func vMethodByID(doc *types.DIDDocument, id string) (*types.VerificationMethod, bool) {
	for _, m := range doc.VerificationMethods {
		if m.Id == id {
			return m, true
		}
	}
	return nil, false
}

// first authentication entry naming vmID decides (as the method specification says)
func vAuthMethod(doc *types.DIDDocument, vmID string) (*types.VerificationMethod, bool) {
	for _, r := range doc.Authentications {
		if m := r.GetVerificationMethod(); m != nil {
			if m.Id == vmID {
				return m, true
			}
		} else if r.GetVerificationMethodId() == vmID {
			return vMethodByID(doc, vmID)
		}
	}
	return nil, false
}

type vProof struct {
	real   bool // produced by vSign
	by     []byte
	doc    *types.DIDDocument
	seq    uint64
	sig    []byte
}

// the adversary's proof: garbage, or a genuine signature by k0/k1 over a
// chosen document and sequence
func (w *vWorld) proof(site string, want *types.DIDDocument, other *types.DIDDocument) vProof {
	if !vNondetBool(site + ".genuine") {
		return vProof{sig: vNondetBytes(site+".garbage", 70)}
	}
	k := vPickKey(vNondetBool(site+".byK1"), w.k0, w.k1)
	if vNondetBool(site + ".overJSONForm") {
		// a genuine signature by the key holder over another encoding of the same content
		// (the document's canonical JSON, which carries no sequence): must never be accepted
		return vProof{sig: vSignBytes(k, want.GetSignBytes())}
	}
	d := want
	if vNondetBool(site + ".overOtherContent") {
		d = other
	}
	seq := vNondetU64(site + ".seq")
	return vProof{real: true, by: k.Pub, doc: d, seq: seq, sig: vSign(k, d, seq)}
}

// specAuth: the proof is a genuine signature, over exactly signData and the
// current sequence, by the key that the first authentication entry of cur
// naming vmID resolves to, and that key is a secp256k1 key.
func vSpecAuth(cur *types.DIDDocument, vmID string, signData *types.DIDDocument, seq uint64, p vProof) bool {
	m, ok := vAuthMethod(cur, vmID)
	if !ok {
		return false
	}
	if m.Type != types.ES256K_2019 && m.Type != types.ES256K_2018 {
		return false
	}
	key := base58.Decode(m.PublicKeyBase58)
	if len(key) != 33 {
		return false
	}
	if !p.real {
		return false
	}
	return vAll(vBytesEqual(key, p.by), p.seq == seq, vDocEqual(p.doc, signData))
}

func vStoredState(ctx sdk.Context, k Keeper, w *vWorld, did string, ids []string) (types.DIDDocumentWithSeq, int) {
	// 0 absent, 1 active, 2 tombstone
	kind := vShape("storedKind", 2)
	var st types.DIDDocumentWithSeq
	switch kind {
	case 1:
		nVM := vShape("stored.nVM", vMaxVM)
		nAuth := vShape("stored.nAuth", vMaxAuth)
		id := did
		if vNondetBool("stored.foreignId") { // states written before the D2 repair / by genesis
			id = vNondetAtom("stored.otherId")
		}
		vAssume(id != "")
		st = types.NewDIDDocumentWithSeq(w.document("stored", id, ids, nVM, nAuth), vNondetU64("stored.seq"))
		k.SetDIDDocument(ctx, did, st)
	case 2:
		seq := vNondetU64("tomb.seq")
		vAssume(seq != 0)
		st = types.NewDIDDocumentWithSeq(&types.DIDDocument{}, seq)
		k.SetDIDDocument(ctx, did, st)
	}
	return st, kind
}

// witness entry under another DID: never touched (C04, C05, C11)
func vWitness(ctx sdk.Context, k Keeper, w *vWorld, did string) (string, types.DIDDocumentWithSeq, bool) {
	if !vWithWitness {
		return "", types.DIDDocumentWithSeq{}, false
	}
	wd := vNondetAtom("witnessDid")
	vAssume(wd != did)
	vAssume(wd != "") // stored DIDs passed ValidateBasic, hence are non-empty
	has := vNondetBool("hasWitness")
	var st types.DIDDocumentWithSeq
	if has {
		st = types.NewDIDDocumentWithSeq(&types.DIDDocument{Id: vNondetAtom("witnessDocId")}, vNondetU64("witnessSeq"))
		k.SetDIDDocument(ctx, wd, st)
	}
	return wd, st, has
}

func vWitnessAfter(ctx sdk.Context, k Keeper, wd string, st types.DIDDocumentWithSeq, has bool) {
	if !vWithWitness {
		return
	}
	got := k.GetDIDDocument(ctx, wd)
	if has {
		vCheck(vDocSeqEqual(got, st), "C04/C05: entries under other DIDs are untouched")
	} else {
		vCheck(got.Document == nil, "C04/C05: no entry appears under another DID")
	}
}

func vHarnessUpdateDID() {
	ctx, k := vEnvDid()
	w := vNewWorld()
	did := vNondetAtom("did")
	vAssume(did != "") // an empty DID never passes ValidateBasic (unit did-validate)
	ids := []string{vNondetAtom("idA"), vNondetAtom("idB")}
	st, kind := vStoredState(ctx, k, w, did, ids)
	wd, wst, whas := vWitness(ctx, k, w, did)
	newDoc := w.document("new", vNondetAtom("newDocId"), ids, 1, 1)
	if vValidated {
		vAssume(newDoc.Id == did && did != "") // consequence of ValidateBasic (unit did-validate)
	}
	other := &types.DIDDocument{Id: vNondetAtom("otherSignedId")}
	vAssume(!vDocEqual(other, newDoc))
	p := w.proof("proof", newDoc, other)
	msg := &types.MsgUpdateDIDRequest{Did: did, Document: newDoc, VerificationMethodId: vPickString(vNondetInt("msg.vmid"), ids...), Signature: p.sig, FromAddress: vNondetAddr("from")}
	if kind == 1 {
		vAssume(st.Sequence < ^uint64(0)) // stated bound: no history reaches 2^64-1 updates
	}
	_, err := msgServer{k}.UpdateDID(sdk.WrapSDKContext(ctx), msg)
	want := kind == 1 && vSpecAuth(st.Document, msg.VerificationMethodId, newDoc, st.Sequence, p)
	vCheck((err == nil) == want, "C03: update accepted iff the DID is active and the proof is a valid signature over (new document, current sequence) by a current authentication key")
	if err != nil {
		vCover("update rejected")
		if kind == 2 {
			vCover("update of deactivated DID rejected")
		}
		return // rolled back by baseapp
	}
	vCover("update accepted")
	got := k.GetDIDDocument(ctx, did)
	vCheck(vDocEqual(got.Document, newDoc), "C03: stored document is exactly the submitted one")
	vCheck(got.Sequence == st.Sequence+1, "C04: sequence grows by exactly one on an accepted update")
	vCheck(kind != 2, "C05: a deactivated DID is never updated")
	if vValidated {
		vCheck(got.Document.Id == did, "C11: the document stored under a DID is about that DID")
	}
	vWitnessAfter(ctx, k, wd, wst, whas)
	// C04 replay: the very same message is rejected against the new state
	_, err2 := msgServer{k}.UpdateDID(sdk.WrapSDKContext(ctx), msg)
	vCheck(err2 != nil, "C04: an accepted update is rejected when submitted again")
}

func vHarnessDeactivateDID() {
	ctx, k := vEnvDid()
	w := vNewWorld()
	did := vNondetAtom("did")
	vAssume(did != "") // an empty DID never passes ValidateBasic (unit did-validate)
	ids := []string{vNondetAtom("idA"), vNondetAtom("idB")}
	st, kind := vStoredState(ctx, k, w, did, ids)
	wd, wst, whas := vWitness(ctx, k, w, did)
	signData := &types.DIDDocument{Id: did}
	other := &types.DIDDocument{Id: vNondetAtom("otherSignedId")}
	vAssume(!vDocEqual(other, signData))
	p := w.proof("proof", signData, other)
	msg := &types.MsgDeactivateDIDRequest{Did: did, VerificationMethodId: vPickString(vNondetInt("msg.vmid"), ids...), Signature: p.sig, FromAddress: vNondetAddr("from")}
	if kind == 1 {
		vAssume(st.Sequence < ^uint64(0))
	}
	_, err := msgServer{k}.DeactivateDID(sdk.WrapSDKContext(ctx), msg)
	want := kind == 1 && vSpecAuth(st.Document, msg.VerificationMethodId, signData, st.Sequence, p)
	vCheck((err == nil) == want, "C03: deactivation accepted iff the DID is active and the proof is a valid signature over (DID, current sequence) by a current authentication key")
	if err != nil {
		vCover("deactivate rejected")
		return
	}
	vCover("deactivate accepted")
	got := k.GetDIDDocument(ctx, did)
	vCheck(got.Document != nil && got.Document.Id == "" && got.Sequence == st.Sequence+1 && got.Sequence != 0, "C04/C05: deactivation stores a tombstone with sequence+1")
	vCheck(got.Deactivated() && !got.Empty(), "C05: the tombstone reads as deactivated, not as absent")
	vWitnessAfter(ctx, k, wd, wst, whas)
	_, qerr := k.DID(sdk.WrapSDKContext(ctx), &types.QueryDIDRequest{DidBase64: vB64(did)})
	vCheck(qerr != nil, "C05: a deactivated DID is reported as not found")
	_, err2 := msgServer{k}.DeactivateDID(sdk.WrapSDKContext(ctx), msg)
	vCheck(err2 != nil, "C04/C05: an accepted deactivation is rejected when submitted again")
}

func vHarnessCreateDID() {
	ctx, k := vEnvDid()
	w := vNewWorld()
	did := vNondetAtom("did")
	vAssume(did != "") // an empty DID never passes ValidateBasic (unit did-validate)
	ids := []string{vNondetAtom("idA"), vNondetAtom("idB")}
	st, kind := vStoredState(ctx, k, w, did, ids)
	wd, wst, whas := vWitness(ctx, k, w, did)
	nVM := vShape("new.nVM", vMaxVM)
	nAuth := vShape("new.nAuth", vMaxAuth)
	docID := did
	if vNondetBool("new.foreignId") {
		docID = vNondetAtom("newDocId")
	}
	newDoc := w.document("new", docID, ids, nVM, nAuth)
	other := &types.DIDDocument{Id: vNondetAtom("otherSignedId")}
	vAssume(!vDocEqual(other, newDoc))
	p := w.proof("proof", newDoc, other)
	msg := &types.MsgCreateDIDRequest{Did: did, Document: newDoc, VerificationMethodId: vPickString(vNondetInt("msg.vmid"), ids...), Signature: p.sig, FromAddress: vNondetAddr("from")}
	if vValidated {
		// BASEAPP-VALIDATE, through its consequences proved in unit did-validate:
		// an accepted create carries a non-empty document id equal to msg.Did
		vAssume(newDoc.Id == did && did != "")
	}
	_, err := msgServer{k}.CreateDID(sdk.WrapSDKContext(ctx), msg)
	want := kind == 0 && vSpecAuth(newDoc, msg.VerificationMethodId, newDoc, 0, p)
	vCheck((err == nil) == want, "C03/C05: creation accepted iff the DID has never existed and the proof is a valid signature over (document, 0) by an authentication key of the submitted document")
	if err != nil {
		vCover("create rejected")
		if kind == 1 {
			vCheck(vDocSeqEqual(k.GetDIDDocument(ctx, did), st), "C05: a failed create leaves the existing document unchanged")
		}
		return
	}
	vCover("create accepted")
	got := k.GetDIDDocument(ctx, did)
	vCheck(vDocEqual(got.Document, newDoc) && got.Sequence == 0, "C04: creation stores the submitted document with sequence 0")
	vWitnessAfter(ctx, k, wd, wst, whas)
	if vValidated {
		vCheck(got.Document.Id == did, "C11: the document stored under a DID is about that DID")
		_, err2 := msgServer{k}.CreateDID(sdk.WrapSDKContext(ctx), msg)
		vCheck(err2 != nil, "C04/C05: an accepted creation is rejected when submitted again")
	}
}

// C17: the DID query handler returns a result or an error for every request.
func vHarnessQueryDIDTotal() {
	ctx, k := vEnvDid()
	w := vNewWorld()
	did := vNondetAtom("did")
	vAssume(did != "")
	ids := []string{vNondetAtom("idA"), vNondetAtom("idB")}
	_, kind := vStoredState(ctx, k, w, did, ids)
	if vNondetBool("nilReq") {
		_, err := k.DID(sdk.WrapSDKContext(ctx), nil)
		vCheck(err != nil, "C17: nil request is an error")
		return
	}
	q := vNondetAtom("query")
	if vNondetBool("askStored") {
		q = vB64(did)
	}
	res, err := k.DID(sdk.WrapSDKContext(ctx), &types.QueryDIDRequest{DidBase64: q})
	if err == nil {
		vCover("did query answered")
		vCheck(res.DidDocumentWithSeq != nil && res.DidDocumentWithSeq.Document != nil, "C17/C05: an answered DID query carries a document")
		vCheck(kind != 2 || q != vB64(did), "C05: a deactivated DID is reported as not found")
	} else {
		vCover("did query error")
	}
}

// C11 / C05, read isolation: with one document stored under d1, reading any other valid DID d2 -
// in particular one that is a proper prefix or an extension of d1 - returns nothing, through the
// keeper and through the query; d1 itself reads back as a document about d1.
func vHarnessReadIsolation() {
	ctx, k := vEnvDid()
	d1, d2 := vNondetString("did1", 60), vNondetString("did2", 60)
	vAssume(types.ValidateDID(d1))
	vAssume(types.ValidateDID(d2))
	vAssume(d1 != d2)
	id := d1 + "#key1"
	m := &types.VerificationMethod{Id: id, Type: types.ES256K_2019, Controller: d1, PublicKeyBase58: vNondetString("key", 48)}
	doc := &types.DIDDocument{Id: d1, Contexts: &types.JSONStringOrStrings{types.ContextDIDV1}, VerificationMethods: []*types.VerificationMethod{m},
		Authentications: []types.VerificationRelationship{types.NewVerificationRelationship(id)}}
	k.SetDIDDocument(ctx, d1, types.NewDIDDocumentWithSeq(doc, vNondetU64("seq")))
	if vHasPrefixS(d1, d2) {
		vCover("the DID read is a proper prefix of the stored one")
	}
	if vHasPrefixS(d2, d1) {
		vCover("the DID read extends the stored one")
	}
	got := k.GetDIDDocument(ctx, d2)
	vCheck(got.Empty(), "C11: reading a DID under which nothing was stored returns nothing, never the document of another identifier")
	_, qerr := k.DID(sdk.WrapSDKContext(ctx), &types.QueryDIDRequest{DidBase64: vB64(d2)})
	vCheck(qerr != nil, "C11: the query for a DID under which nothing was stored reports not found")
	g1 := k.GetDIDDocument(ctx, d1)
	vCheck(g1.Document != nil && g1.Document.Id == d1, "C11: the stored DID reads back as a document about itself")
	vCover("read isolation evaluated")
}

package __PKG__

import (
	"bytes"
	"encoding/base64"
	"crypto/sha256"
	"time"

	dbm "github.com/cometbft/cometbft-db"
	"github.com/cometbft/cometbft/crypto/secp256k1"
	"github.com/cometbft/cometbft/libs/log"
	tmproto "github.com/cometbft/cometbft/proto/tendermint/types"
	"github.com/btcsuite/btcutil/base58"
	"github.com/cosmos/cosmos-sdk/codec"
	codectypes "github.com/cosmos/cosmos-sdk/codec/types"
	"github.com/cosmos/cosmos-sdk/store"
	storetypes "github.com/cosmos/cosmos-sdk/store/types"
	sdk "github.com/cosmos/cosmos-sdk/types"
	"github.com/medibloc/panacea-core/v2/x/did/types"
)

type vKey struct {
	PubB58 string
	Pub    []byte
	ID     int
	priv   secp256k1.PrivKey
}

func vEnvDid() (sdk.Context, Keeper) {
	sdk.GetConfig().SetBech32PrefixForAccount("panacea", "panaceapub")
	key := sdk.NewKVStoreKey(types.StoreKey)
	mem := storetypes.NewMemoryStoreKey(types.MemStoreKey)
	db := dbm.NewMemDB()
	ms := store.NewCommitMultiStore(db)
	ms.MountStoreWithDB(key, storetypes.StoreTypeIAVL, db)
	if err := ms.LoadLatestVersion(); err != nil {
		panic(err)
	}
	bt := vNondetI64("blocktime")
	ctx := sdk.NewContext(ms, tmproto.Header{Time: time.Unix(0, bt).UTC()}, false, log.NewNopLogger())
	ir := codectypes.NewInterfaceRegistry()
	types.RegisterInterfaces(ir)
	cdc := codec.NewProtoCodec(ir)
	return ctx, *NewKeeper(cdc, key, mem)
}

// vKeyPair: a real secp256k1 key pair, deterministic in the site name.
func vKeyPair(site string) vKey {
	_ = vRawBytes(site) // keep the oracle site counters aligned with the symbolic run
	h := sha256.Sum256([]byte("verif-key:" + site))
	priv := secp256k1.GenPrivKeySecp256k1(h[:])
	pub := priv.PubKey().(secp256k1.PubKey)
	return vKey{PubB58: base58.Encode(pub[:]), Pub: append([]byte{}, pub[:]...), priv: priv}
}

func vSign(k vKey, doc *types.DIDDocument, seq uint64) []byte {
	sig, err := types.Sign(doc, seq, k.priv)
	if err != nil {
		panic(err)
	}
	return sig
}

func vDocEqual(a, b *types.DIDDocument) bool {
	if a == nil || b == nil {
		return a == nil && b == nil
	}
	ma, _ := a.Marshal()
	mb, _ := b.Marshal()
	return bytes.Equal(ma, mb)
}

func vDocSeqEqual(a, b types.DIDDocumentWithSeq) bool {
	ma, _ := a.Marshal()
	mb, _ := b.Marshal()
	return bytes.Equal(ma, mb)
}

func vB64(s string) string { return base64.StdEncoding.EncodeToString([]byte(s)) }

func vPickKey(second bool, a, b vKey) vKey {
	if second {
		return b
	}
	return a
}

func vSignBytes(k vKey, msg []byte) []byte {
	sig, err := k.priv.Sign(msg)
	if err != nil {
		panic(err)
	}
	return sig
}

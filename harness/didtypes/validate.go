package __PKG__

// Stateless validation of DID messages (C11 lemma, C16, C17).

import sdk "github.com/cosmos/cosmos-sdk/types"

func vMethodT(site, docID string) *VerificationMethod {
	return &VerificationMethod{
		Id:              vNondetString(site+".id", 80),
		Type:            vChoose(site+".type", ES256K_2019, "", "SomeFutureKeyType2030"),
		Controller:      vNondetAtom(site + ".controller"),
		PublicKeyBase58: vNondetString(site+".key", 48),
	}
}

func vRelT(site, docID string) VerificationRelationship {
	if vNondetBool(site + ".dedicated") {
		return NewVerificationRelationshipDedicated(*vMethodT(site+".m", docID))
	}
	return NewVerificationRelationship(vNondetString(site+".ref", 80))
}

// vChoose forks over concrete options (comparisons against them fold to constants)
func vChoose(site string, options ...string) string {
	return options[vShapeT(site, len(options)-1)]
}

func vShapeT(site string, max int) int {
	n := vNondetInt(site)
	vAssume(n >= 0 && n <= max)
	for i := 0; i <= max; i++ {
		if n == i {
			return i
		}
	}
	return 0
}

// Documents are generated with one adversarial focus group at a time; the
// other groups take a minimal well-formed shape whose (symbolic) content is
// assumed valid through the specification predicates.
const (
	vFocusIDs = iota
	vFocusContexts
	vFocusMethods
	vFocusAuth
	vFocusServices
	vFocusAssertion
	vFocusKeyAgreement
	vFocusCapInvocation
	vFocusCapDelegation
)

func vDocT(site string, focus int) *DIDDocument {
	if focus == vFocusIDs && vNondetBool(site+".nil") {
		return nil
	}
	doc := &DIDDocument{Id: vNondetString(site+".id", 60)}
	if focus == vFocusContexts {
		switch vShapeT(site+".contexts", 2) {
		case 1:
			doc.Contexts = &JSONStringOrStrings{vChoose(site+".ctx0", ContextDIDV1, "https://example.org/other")}
		case 2:
			doc.Contexts = &JSONStringOrStrings{vChoose(site+".ctx0", ContextDIDV1, "https://example.org/other"), vChoose(site+".ctx1", ContextDIDV1, "", "https://example.org/other")}
		}
		switch vShapeT(site+".controllers", 2) {
		case 1:
			doc.Controller = &JSONStringOrStrings{vNondetString(site+".controller", 60)}
		case 2:
			doc.Controller = &JSONStringOrStrings{vNondetString(site+".controller", 60), vNondetString(site+".controller", 60)}
		}
	}
	if focus == vFocusMethods {
		nVM := vShapeT(site+".nVM", vMaxVM)
		if nVM > 0 || vNondetBool(site+".emptyVMList") {
			doc.VerificationMethods = []*VerificationMethod{}
		}
		for i := 0; i < nVM; i++ {
			doc.VerificationMethods = append(doc.VerificationMethods, vMethodT(site+".vm", doc.Id))
		}
		// a well-formed dedicated authentication method (does not depend on the list)
		am := vMethodT(site+".am", doc.Id)
		vAssume(vSpecMethod(am, doc.Id))
		doc.Authentications = []VerificationRelationship{NewVerificationRelationshipDedicated(*am)}
		return doc
	}
	// one well-formed method
	m := vMethodT(site+".vm", doc.Id)
	vAssume(vSpecMethod(m, doc.Id))
	doc.VerificationMethods = []*VerificationMethod{m}
	if focus == vFocusAuth {
		nAuth := vShapeT(site+".nAuth", vMaxAuth)
		if nAuth > 0 || vNondetBool(site+".emptyAuthList") {
			doc.Authentications = []VerificationRelationship{}
		}
		for i := 0; i < nAuth; i++ {
			doc.Authentications = append(doc.Authentications, vRelT(site+".auth", doc.Id))
		}
	} else {
		doc.Authentications = []VerificationRelationship{NewVerificationRelationship(m.Id)}
	}
	if focus >= vFocusAssertion {
		// one adversarial entry in one of the other verification relationships
		var rels []VerificationRelationship
		if vNondetBool(site + ".hasOtherRel") {
			rels = append(rels, vRelT(site+".rel", doc.Id))
		}
		switch focus {
		case vFocusAssertion:
			doc.AssertionMethods = rels
		case vFocusKeyAgreement:
			doc.KeyAgreements = rels
		case vFocusCapInvocation:
			doc.CapabilityInvocations = rels
		case vFocusCapDelegation:
			doc.CapabilityDelegations = rels
		}
	}
	if focus == vFocusServices {
		n := vShapeT(site+".nSvc", 2)
		for i := 0; i < n; i++ {
			doc.Services = append(doc.Services, &Service{Id: vNondetAtom(site + ".svc.id"), Type: vNondetAtom(site + ".svc.type"), ServiceEndpoint: vNondetAtom(site + ".svc.endpoint")})
		}
	}
	return doc
}

// ---- specification side (written from docs/did.md and the property text,
// with spec-level predicates independent of the regexp translator)

const vBase58 = "123456789ABCDEFGHJKLMNPQRSTUVWXYZabcdefghijkmnopqrstuvwxyz"

// did:panacea:<32..44 base58>   (pure terms: no control flow on symbolic values)
func vSpecDID(s string) bool {
	const p = "did:panacea:"
	return vAll(len(s) >= len(p)+32, len(s) <= len(p)+44, vHasPrefixS(s, p), vAllBytesIn(s, len(p), len(s), vBase58))
}

// '<did>#<1-128 non-space>'
func vSpecMethodID(id, did string) bool {
	pre := did + "#"
	return vAll(len(id) >= len(pre)+1, len(id) <= len(pre)+128, vHasPrefixS(id, pre), vNoBytesIn(id, len(pre), len(id), "\t\n\f\r "))
}

func vSpecKey(k string) bool {
	return vAll(len(k) > 0, vAllBytesIn(k, 0, len(k), vBase58))
}

func vSpecMethod(m *VerificationMethod, did string) bool {
	return vAll(vSpecMethodID(m.Id, did), m.Type != "", vSpecKey(m.PublicKeyBase58))
}

func vSpecContexts(c []string) bool {
	if len(c) == 0 {
		return false
	}
	ok := c[0] == ContextDIDV1
	for i := range c {
		ok = vAll(ok, c[i] != "")
		for j := 0; j < i; j++ {
			ok = vAll(ok, c[i] != c[j])
		}
	}
	return ok
}

func vSpecRel(r VerificationRelationship, doc *DIDDocument) bool {
	if m := r.GetVerificationMethod(); m != nil {
		return vSpecMethod(m, doc.Id)
	}
	ref := r.GetVerificationMethodId()
	found := false
	for _, m := range doc.VerificationMethods {
		found = vAny(found, m.Id == ref)
	}
	return vAll(vSpecMethodID(ref, doc.Id), found)
}

// well-formed document about did
func vSpecDoc(doc *DIDDocument, did string) bool {
	if doc == nil || doc.VerificationMethods == nil || doc.Authentications == nil {
		return false
	}
	ok := doc.Id == did
	if doc.Controller != nil {
		allEmpty, allValid := true, true
		for _, c := range *doc.Controller {
			allEmpty = vAll(allEmpty, c == "")
			allValid = vAll(allValid, vSpecDID(c))
		}
		ok = vAll(ok, vAny(allEmpty, allValid))
	}
	if doc.Contexts != nil {
		ok = vAll(ok, vSpecContexts(*doc.Contexts))
	}
	for _, m := range doc.VerificationMethods {
		ok = vAll(ok, vSpecMethod(m, did))
	}
	for _, rs := range [][]VerificationRelationship{doc.Authentications, doc.AssertionMethods, doc.KeyAgreements, doc.CapabilityInvocations, doc.CapabilityDelegations} {
		for _, r := range rs {
			ok = vAll(ok, vSpecRel(r, doc))
		}
	}
	for _, sv := range doc.Services {
		ok = vAll(ok, sv.Id != "", sv.Type != "", sv.ServiceEndpoint != "")
	}
	return ok
}

func vCreateValidate(focus int) {
	from := ""
	if focus == vFocusIDs {
		from = vAddrOrJunk("from")
	} else {
		from, vFromOK = vNondetAddr("from"), true
	}
	msg := &MsgCreateDIDRequest{Did: vNondetString("did", 60), Document: vDocT("doc", focus), VerificationMethodId: vNondetAtom("vmid"), Signature: vNondetBytes("sig", 70), FromAddress: from}
	err := msg.ValidateBasic() // a panic escapes = violation (C17)
	if err == nil {
		vCover("create message accepted")
		vCheck(msg.Document != nil, "C11: an accepted create carries a document")
		if msg.Document != nil {
			vCheck(msg.Document.Id == msg.Did, "C11: an accepted create carries a document about the DID it names")
			vCheck(msg.Document.Id != "", "C04/C16: an accepted create carries a non-empty document id")
		}
	} else {
		vCover("create message rejected")
	}
	want := vAll(vSpecDID(msg.Did), vSpecDoc(msg.Document, msg.Did), len(msg.Signature) > 0, vFromOK)
	vCheck((err == nil) == want, "C16: create accepted iff DID syntax, proof present, well-formed document about that DID, valid sender")
	if err == nil {
		s := msg.GetSigners()
		vCheck(len(s) == 1, "C15/C17: one signer after successful validation")
	}
}

func vUpdateValidate(focus int) {
	from := ""
	if focus == vFocusIDs {
		from = vAddrOrJunk("from")
	} else {
		from, vFromOK = vNondetAddr("from"), true
	}
	msg := &MsgUpdateDIDRequest{Did: vNondetString("did", 60), Document: vDocT("doc", focus), VerificationMethodId: vNondetAtom("vmid"), Signature: vNondetBytes("sig", 70), FromAddress: from}
	err := msg.ValidateBasic()
	if err == nil {
		vCover("update message accepted")
		vCheck(msg.Document != nil, "C11: an accepted update carries a document")
		if msg.Document != nil {
			vCheck(msg.Document.Id == msg.Did, "C11: an accepted update carries a document about the DID it names")
		}
	} else {
		vCover("update message rejected")
	}
	want := vAll(vSpecDID(msg.Did), vSpecDoc(msg.Document, msg.Did), len(msg.Signature) > 0, vFromOK)
	vCheck((err == nil) == want, "C16: update accepted iff DID syntax, proof present, well-formed document about that DID, valid sender")
	if err == nil {
		s := msg.GetSigners()
		vCheck(len(s) == 1, "C15/C17: one signer after successful validation")
	}
}

func vHarnessCreateValidateIDs()      { vCreateValidate(vFocusIDs) }
func vHarnessCreateValidateContexts() { vCreateValidate(vFocusContexts) }
func vHarnessCreateValidateMethods()  { vCreateValidate(vFocusMethods) }
func vHarnessCreateValidateAuth()     { vCreateValidate(vFocusAuth) }
func vHarnessCreateValidateServices() { vCreateValidate(vFocusServices) }
func vHarnessCreateValidateRelA()     { vCreateValidate(vFocusAssertion) }
func vHarnessCreateValidateRelK()     { vCreateValidate(vFocusKeyAgreement) }
func vHarnessCreateValidateRelI()     { vCreateValidate(vFocusCapInvocation) }
func vHarnessCreateValidateRelD()     { vCreateValidate(vFocusCapDelegation) }
func vHarnessUpdateValidateRelA()     { vUpdateValidate(vFocusAssertion) }
func vHarnessUpdateValidateRelK()     { vUpdateValidate(vFocusKeyAgreement) }
func vHarnessUpdateValidateRelI()     { vUpdateValidate(vFocusCapInvocation) }
func vHarnessUpdateValidateRelD()     { vUpdateValidate(vFocusCapDelegation) }
func vHarnessUpdateValidateIDs()      { vUpdateValidate(vFocusIDs) }
func vHarnessUpdateValidateContexts() { vUpdateValidate(vFocusContexts) }
func vHarnessUpdateValidateMethods()  { vUpdateValidate(vFocusMethods) }
func vHarnessUpdateValidateAuth()     { vUpdateValidate(vFocusAuth) }
func vHarnessUpdateValidateServices() { vUpdateValidate(vFocusServices) }

func vHarnessDeactivateValidate() {
	msg := &MsgDeactivateDIDRequest{Did: vNondetString("did", 60), VerificationMethodId: vNondetAtom("vmid"), Signature: vNondetBytes("sig", 70), FromAddress: vAddrOrJunk("from")}
	err := msg.ValidateBasic()
	if err == nil {
		vCover("deactivate message accepted")
	} else {
		vCover("deactivate message rejected")
	}
	want := vAll(vSpecDID(msg.Did), len(msg.Signature) > 0, vFromOK)
	vCheck((err == nil) == want, "C16: deactivate accepted iff DID syntax, proof present, valid sender")
	if err == nil {
		s := msg.GetSigners()
		vCheck(len(s) == 1, "C15/C17: one signer after successful validation")
	}
}

var vFromOK bool

// a sender that is either a valid address or an arbitrary non-address string
func vAddrOrJunk(site string) string {
	if vNondetBool(site + ".valid") {
		vFromOK = true
		return vNondetAddr(site)
	}
	vFromOK = false
	if vNondetBool(site + ".empty") {
		return ""
	}
	j := vNondetAtom(site + ".junk")
	_, jerr := sdk.AccAddressFromBech32(j)
	vAssume(jerr != nil)
	return j
}

package __PKG__

import sdk "github.com/cosmos/cosmos-sdk/types"

// C16/C17 for the four AOL message types: ValidateBasic accepts exactly the
// published limits (.gitbook/specifications/aol.md), never panics, and
// GetSigners after successful validation never panics.

const vNameClass = "ABCDEFGHIJKLMNOPQRSTUVWXYZabcdefghijklmnopqrstuvwxyz0123456789._-"

func vSpecTopic(s string) bool {
	return vAll(len(s) >= 1, len(s) <= 70, vAllBytesIn(s, 0, len(s), vNameClass))
}
func vSpecMoniker(s string) bool {
	return vAll(len(s) <= 70, vAllBytesIn(s, 0, len(s), vNameClass))
}

type vAddr struct {
	s  string
	ok bool
}

// a valid address, the empty string, or an arbitrary non-address string
func vAnyAddr(site string) vAddr {
	switch {
	case vNondetBool(site + ".valid"):
		return vAddr{vNondetAddr(site), true}
	case vNondetBool(site + ".empty"):
		return vAddr{"", false}
	}
	j := vNondetAtom(site + ".junk")
	_, jerr := sdk.AccAddressFromBech32(j)
	vAssume(jerr != nil)
	return vAddr{j, false}
}

func vHarnessCreateTopicValidate() {
	o := vAnyAddr("owner")
	msg := &MsgCreateTopicRequest{TopicName: vNondetString("topic", 80), Description: vNondetText("desc", 20100), OwnerAddress: o.s}
	err := msg.ValidateBasic()
	want := vAll(vSpecTopic(msg.TopicName), len(msg.Description) <= 5000, o.ok)
	vCheck((err == nil) == want, "C16: CreateTopic accepted iff topic 1-70 of [A-Za-z0-9._-], description <= 5000 bytes, valid owner")
	if err == nil {
		vCover("create-topic accepted")
		vCheck(len(msg.GetSigners()) == 1, "C17: signer extraction after successful validation")
	} else {
		vCover("create-topic rejected")
	}
}

func vHarnessAddWriterValidate() {
	o, w := vAnyAddr("owner"), vAnyAddr("writer")
	msg := &MsgAddWriterRequest{TopicName: vNondetString("topic", 80), Moniker: vNondetString("moniker", 80), Description: vNondetText("desc", 20100), WriterAddress: w.s, OwnerAddress: o.s}
	err := msg.ValidateBasic()
	want := vAll(vSpecTopic(msg.TopicName), vSpecMoniker(msg.Moniker), len(msg.Description) <= 5000, o.ok, w.ok)
	vCheck((err == nil) == want, "C16: AddWriter accepted iff topic, moniker 0-70 of the class, description <= 5000, valid owner and writer")
	if err == nil {
		vCover("add-writer accepted")
		vCheck(len(msg.GetSigners()) == 1, "C17: signer extraction after successful validation")
	} else {
		vCover("add-writer rejected")
	}
}

func vHarnessDeleteWriterValidate() {
	o, w := vAnyAddr("owner"), vAnyAddr("writer")
	msg := &MsgDeleteWriterRequest{TopicName: vNondetString("topic", 80), WriterAddress: w.s, OwnerAddress: o.s}
	err := msg.ValidateBasic()
	want := vAll(vSpecTopic(msg.TopicName), o.ok, w.ok)
	vCheck((err == nil) == want, "C16: DeleteWriter accepted iff topic, valid owner and writer")
	if err == nil {
		vCover("delete-writer accepted")
		vCheck(len(msg.GetSigners()) == 1, "C17: signer extraction after successful validation")
	} else {
		vCover("delete-writer rejected")
	}
}

func vHarnessAddRecordValidate() {
	o, w := vAnyAddr("owner"), vAnyAddr("writer")
	fee := vAddr{"", true}
	if vNondetBool("withFeePayer") {
		fee = vAnyAddr("fee")
		if fee.s == "" {
			fee.ok = true // an empty fee payer means "none"
		}
	}
	msg := &MsgAddRecordRequest{TopicName: vNondetString("topic", 80), Key: vNondetBytes("key", 80), Value: vNondetBytes("value", 5100), WriterAddress: w.s, OwnerAddress: o.s, FeePayerAddress: fee.s}
	err := msg.ValidateBasic()
	want := vAll(vSpecTopic(msg.TopicName), len(msg.Key) <= 70, len(msg.Value) <= 5000, o.ok, w.ok, fee.ok)
	vCheck((err == nil) == want, "C16: AddRecord accepted iff topic, key <= 70, value <= 5000 bytes, valid owner/writer, fee payer valid or empty")
	if err == nil {
		vCover("add-record accepted")
		s := msg.GetSigners()
		if fee.s != "" {
			vCheck(len(s) == 2, "C15: with a fee payer the signers are [fee payer, writer]")
		} else {
			vCheck(len(s) == 1, "C15: without a fee payer the writer is the only signer")
		}
	} else {
		vCover("add-record rejected")
	}
}

package __PKG__

// C14, same-type pairs for the DID messages. Documents: id, contexts, a
// controller list of 0..2 entries, one verification method, one authentication
// reference - enough to exercise the hand-written MarshalJSON methods
// (JSONStringOrStrings, VerificationRelationship), which are executed.

func vSBDoc(site string) *DIDDocument {
	doc := &DIDDocument{Id: vNondetAtom(site + ".id"), Contexts: &JSONStringOrStrings{ContextDIDV1}}
	n := vNondetInt(site + ".nController")
	vAssume(n >= 0 && n <= 2)
	if n == 1 {
		doc.Controller = &JSONStringOrStrings{vNondetAtom(site + ".c0")}
	} else if n == 2 {
		doc.Controller = &JSONStringOrStrings{vNondetAtom(site + ".c0"), vNondetAtom(site + ".c1")}
	}
	m := &VerificationMethod{Id: vNondetAtom(site + ".vmid"), Type: ES256K_2019, Controller: vNondetAtom(site + ".vmc"), PublicKeyBase58: vNondetAtom(site + ".key")}
	doc.VerificationMethods = []*VerificationMethod{m}
	if vNondetBool(site + ".dedicatedAuth") {
		doc.Authentications = []VerificationRelationship{NewVerificationRelationshipDedicated(*m)}
	} else {
		doc.Authentications = []VerificationRelationship{NewVerificationRelationship(vNondetAtom(site + ".authref"))}
	}
	return doc
}

func vHarnessSignBytesCreateDID() {
	m1 := &MsgCreateDIDRequest{Did: vNondetAtom("did1"), Document: vSBDoc("doc1"), VerificationMethodId: vNondetAtom("vm1"), Signature: vNondetBytes("sig1", 70), FromAddress: vNondetAddr("from1")}
	m2 := &MsgCreateDIDRequest{Did: vNondetAtom("did2"), Document: vSBDoc("doc2"), VerificationMethodId: vNondetAtom("vm2"), Signature: vNondetBytes("sig2", 70), FromAddress: vNondetAddr("from2")}
	vAssume(vAny(m1.Did != m2.Did, !vDocEqual(m1.Document, m2.Document), m1.VerificationMethodId != m2.VerificationMethodId, !vBytesEqual(m1.Signature, m2.Signature), m1.FromAddress != m2.FromAddress))
	vCover("two different create-did messages")
	vCheck(!vBytesEqual(m1.GetSignBytes(), m2.GetSignBytes()), "C14: different CreateDID messages have different sign bytes")
}

func vHarnessSignBytesUpdateDID() {
	m1 := &MsgUpdateDIDRequest{Did: vNondetAtom("did1"), Document: vSBDoc("doc1"), VerificationMethodId: vNondetAtom("vm1"), Signature: vNondetBytes("sig1", 70), FromAddress: vNondetAddr("from1")}
	m2 := &MsgUpdateDIDRequest{Did: vNondetAtom("did2"), Document: vSBDoc("doc2"), VerificationMethodId: vNondetAtom("vm2"), Signature: vNondetBytes("sig2", 70), FromAddress: vNondetAddr("from2")}
	vAssume(vAny(m1.Did != m2.Did, !vDocEqual(m1.Document, m2.Document), m1.VerificationMethodId != m2.VerificationMethodId, !vBytesEqual(m1.Signature, m2.Signature), m1.FromAddress != m2.FromAddress))
	vCover("two different update-did messages")
	vCheck(!vBytesEqual(m1.GetSignBytes(), m2.GetSignBytes()), "C14: different UpdateDID messages have different sign bytes")
}

func vHarnessSignBytesDeactivateDID() {
	m1 := &MsgDeactivateDIDRequest{Did: vNondetAtom("did1"), VerificationMethodId: vNondetAtom("vm1"), Signature: vNondetBytes("sig1", 70), FromAddress: vNondetAddr("from1")}
	m2 := &MsgDeactivateDIDRequest{Did: vNondetAtom("did2"), VerificationMethodId: vNondetAtom("vm2"), Signature: vNondetBytes("sig2", 70), FromAddress: vNondetAddr("from2")}
	vAssume(vAny(m1.Did != m2.Did, m1.VerificationMethodId != m2.VerificationMethodId, !vBytesEqual(m1.Signature, m2.Signature), m1.FromAddress != m2.FromAddress))
	vCover("two different deactivate-did messages")
	vCheck(!vBytesEqual(m1.GetSignBytes(), m2.GetSignBytes()), "C14: different DeactivateDID messages have different sign bytes")
}

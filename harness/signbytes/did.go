package __PKG__

// C14, same-type pairs for the DID messages. Documents: id, contexts, a
// controller list of 0..2 entries, one verification method, one authentication
// reference - enough to exercise the hand-written MarshalJSON methods
// (JSONStringOrStrings, VerificationRelationship), which are executed.

// all text of the DID messages is kept free of bytes 0xF8..0xFF: the collision class they cause in
// JSON text (known finding, shown on the AOL and PNFT messages) is the same mechanism here and
// is not listed again per DID field.
func vSBText(site string) string {
	s := vNondetAtom(site)
	vAssume(len(s) <= 80)
	vAssume(vNoBytesIn(s, 0, 1<<20, "\xf8\xf9\xfa\xfb\xfc\xfd\xfe\xff"))
	return s
}

func vSBDoc(site string) *DIDDocument {
	doc := &DIDDocument{Id: vSBText(site + ".id"), Contexts: &JSONStringOrStrings{ContextDIDV1}}
	n := vNondetInt(site + ".nController")
	vAssume(n >= 0 && n <= 2)
	if n == 1 {
		doc.Controller = &JSONStringOrStrings{vSBText(site + ".c0")}
	} else if n == 2 {
		doc.Controller = &JSONStringOrStrings{vSBText(site + ".c0"), vSBText(site + ".c1")}
	}
	m := &VerificationMethod{Id: vSBText(site + ".vmid"), Type: ES256K_2019, Controller: vSBText(site + ".vmc"), PublicKeyBase58: vSBText(site + ".key")}
	doc.VerificationMethods = []*VerificationMethod{m}
	if vNondetBool(site + ".dedicatedAuth") {
		doc.Authentications = []VerificationRelationship{NewVerificationRelationshipDedicated(*m)}
	} else {
		doc.Authentications = []VerificationRelationship{NewVerificationRelationship(vSBText(site + ".authref"))}
	}
	return doc
}

func vHarnessSignBytesCreateDID() {
	m1 := &MsgCreateDIDRequest{Did: vSBText("did1"), Document: vSBDoc("doc1"), VerificationMethodId: vSBText("vm1"), Signature: vNondetBytes("sig1", 70), FromAddress: vNondetAddr("from1")}
	m2 := &MsgCreateDIDRequest{Did: vSBText("did2"), Document: vSBDoc("doc2"), VerificationMethodId: vSBText("vm2"), Signature: vNondetBytes("sig2", 70), FromAddress: vNondetAddr("from2")}
	vAssume(vAny(m1.Did != m2.Did, !vDocEqual(m1.Document, m2.Document), m1.VerificationMethodId != m2.VerificationMethodId, !vBytesEqual(m1.Signature, m2.Signature), m1.FromAddress != m2.FromAddress))
	vCover("two different create-did messages")
	vCheck(!vBytesEqual(m1.GetSignBytes(), m2.GetSignBytes()), "C14: different CreateDID messages have different sign bytes")
}

func vHarnessSignBytesUpdateDID() {
	m1 := &MsgUpdateDIDRequest{Did: vSBText("did1"), Document: vSBDoc("doc1"), VerificationMethodId: vSBText("vm1"), Signature: vNondetBytes("sig1", 70), FromAddress: vNondetAddr("from1")}
	m2 := &MsgUpdateDIDRequest{Did: vSBText("did2"), Document: vSBDoc("doc2"), VerificationMethodId: vSBText("vm2"), Signature: vNondetBytes("sig2", 70), FromAddress: vNondetAddr("from2")}
	vAssume(vAny(m1.Did != m2.Did, !vDocEqual(m1.Document, m2.Document), m1.VerificationMethodId != m2.VerificationMethodId, !vBytesEqual(m1.Signature, m2.Signature), m1.FromAddress != m2.FromAddress))
	vCover("two different update-did messages")
	vCheck(!vBytesEqual(m1.GetSignBytes(), m2.GetSignBytes()), "C14: different UpdateDID messages have different sign bytes")
}

func vHarnessSignBytesDeactivateDID() {
	m1 := &MsgDeactivateDIDRequest{Did: vSBText("did1"), VerificationMethodId: vSBText("vm1"), Signature: vNondetBytes("sig1", 70), FromAddress: vNondetAddr("from1")}
	m2 := &MsgDeactivateDIDRequest{Did: vSBText("did2"), VerificationMethodId: vSBText("vm2"), Signature: vNondetBytes("sig2", 70), FromAddress: vNondetAddr("from2")}
	vAssume(vAny(m1.Did != m2.Did, m1.VerificationMethodId != m2.VerificationMethodId, !vBytesEqual(m1.Signature, m2.Signature), m1.FromAddress != m2.FromAddress))
	vCover("two different deactivate-did messages")
	vCheck(!vBytesEqual(m1.GetSignBytes(), m2.GetSignBytes()), "C14: different DeactivateDID messages have different sign bytes")
}

package __PKG__

// C14, same-type pairs: two valid messages of one type that differ in some
// field never share legacy amino-JSON sign bytes. The real GetSignBytes is
// executed; the JSON encoder is the injective model of DESIGN §5 C14.

func vFee(site string) string {
	if vNondetBool(site + ".set") {
		return vNondetAddr(site)
	}
	return ""
}


const vInvalidAnywhere = "\xf8\xf9\xfa\xfb\xfc\xfd\xfe\xff"

// vTxt: a text field of at most 16 bytes (the JSON model is structural, so longer strings add
// nothing; the U+FFFD coercion is modelled for strings of up to 12 bytes)
func vTxt(site string) string {
	s := vNondetAtom(site)
	vAssume(len(s) <= 16)
	return s
}

// vClean: none of the strings contains a byte 0xF8..0xFF (bytes that are invalid in any UTF-8
// context; encoding/json and amino-JSON write each of them as U+FFFD)
func vClean(ss ...string) bool {
	ok := true
	for _, s := range ss {
		ok = vAll(ok, vNoBytesIn(s, 0, 1<<20, vInvalidAnywhere))
	}
	return ok
}

// vDistinctSignBytes asserts injectivity under two labels, so that the known collision class
// (text fields with bytes that are not valid UTF-8) is told apart from any other collision.
func vDistinctSignBytes(b1, b2 []byte, clean bool, label, labelInvalid string) {
	eq := vBytesEqual(b1, b2)
	if clean {
		vCheck(!eq, label)
	} else {
		vCheck(!eq, labelInvalid)
	}
}

func vHarnessSignBytesCreateTopic() {
	m1 := &MsgCreateTopicRequest{TopicName: vTxt("t1"), Description: vTxt("d1"), OwnerAddress: vNondetAddr("o1")}
	m2 := &MsgCreateTopicRequest{TopicName: vTxt("t2"), Description: vTxt("d2"), OwnerAddress: vNondetAddr("o2")}
	vAssume(m1.ValidateBasic() == nil)
	vAssume(m2.ValidateBasic() == nil)
	vAssume(vAny(m1.TopicName != m2.TopicName, m1.Description != m2.Description, m1.OwnerAddress != m2.OwnerAddress))
	vCover("two different create-topic messages")
	vDistinctSignBytes(m1.GetSignBytes(), m2.GetSignBytes(), vClean(m1.Description, m2.Description),
		"C14: different CreateTopic messages have different sign bytes", "C14: CreateTopic messages that differ only in bytes that are not valid UTF-8 have different legacy sign bytes")
}

func vHarnessSignBytesAddWriter() {
	m1 := &MsgAddWriterRequest{TopicName: vTxt("t1"), Moniker: vTxt("m1"), Description: vTxt("d1"), WriterAddress: vNondetAddr("w1"), OwnerAddress: vNondetAddr("o1")}
	m2 := &MsgAddWriterRequest{TopicName: vTxt("t2"), Moniker: vTxt("m2"), Description: vTxt("d2"), WriterAddress: vNondetAddr("w2"), OwnerAddress: vNondetAddr("o2")}
	vAssume(m1.ValidateBasic() == nil)
	vAssume(m2.ValidateBasic() == nil)
	vAssume(vAny(m1.TopicName != m2.TopicName, m1.Moniker != m2.Moniker, m1.Description != m2.Description, m1.WriterAddress != m2.WriterAddress, m1.OwnerAddress != m2.OwnerAddress))
	vCover("two different add-writer messages")
	vDistinctSignBytes(m1.GetSignBytes(), m2.GetSignBytes(), vClean(m1.Description, m2.Description),
		"C14: different AddWriter messages have different sign bytes", "C14: AddWriter messages that differ only in bytes that are not valid UTF-8 have different legacy sign bytes")
}

func vHarnessSignBytesDeleteWriter() {
	m1 := &MsgDeleteWriterRequest{TopicName: vTxt("t1"), WriterAddress: vNondetAddr("w1"), OwnerAddress: vNondetAddr("o1")}
	m2 := &MsgDeleteWriterRequest{TopicName: vTxt("t2"), WriterAddress: vNondetAddr("w2"), OwnerAddress: vNondetAddr("o2")}
	vAssume(m1.ValidateBasic() == nil)
	vAssume(m2.ValidateBasic() == nil)
	vAssume(vAny(m1.TopicName != m2.TopicName, m1.WriterAddress != m2.WriterAddress, m1.OwnerAddress != m2.OwnerAddress))
	vCover("two different delete-writer messages")
	vCheck(!vBytesEqual(m1.GetSignBytes(), m2.GetSignBytes()), "C14: different DeleteWriter messages have different sign bytes")
}

func vHarnessSignBytesAddRecord() {
	m1 := &MsgAddRecordRequest{TopicName: vTxt("t1"), Key: vNondetBytes("k1", 70), Value: vNondetBytes("v1", 80), WriterAddress: vNondetAddr("w1"), OwnerAddress: vNondetAddr("o1"), FeePayerAddress: vFee("f1")}
	m2 := &MsgAddRecordRequest{TopicName: vTxt("t2"), Key: vNondetBytes("k2", 70), Value: vNondetBytes("v2", 80), WriterAddress: vNondetAddr("w2"), OwnerAddress: vNondetAddr("o2"), FeePayerAddress: vFee("f2")}
	vAssume(m1.ValidateBasic() == nil)
	vAssume(m2.ValidateBasic() == nil)
	vAssume(vAny(m1.TopicName != m2.TopicName, !vBytesEqual(m1.Key, m2.Key), !vBytesEqual(m1.Value, m2.Value), m1.WriterAddress != m2.WriterAddress, m1.OwnerAddress != m2.OwnerAddress, m1.FeePayerAddress != m2.FeePayerAddress))
	vCover("two different add-record messages")
	vCheck(!vBytesEqual(m1.GetSignBytes(), m2.GetSignBytes()), "C14: different AddRecord messages have different sign bytes")
}

package __PKG__

// C14, same-type pairs: two valid messages of one type that differ in some
// field never share legacy amino-JSON sign bytes. The real GetSignBytes is
// executed; the JSON encoder is the injective model of DESIGN §5 C14.

func vFee(site string) string {
	if vNondetBool(site + ".set") {
		return vNondetAddr(site)
	}
	return ""
}

func vHarnessSignBytesCreateTopic() {
	m1 := &MsgCreateTopicRequest{TopicName: vNondetAtom("t1"), Description: vNondetAtom("d1"), OwnerAddress: vNondetAddr("o1")}
	m2 := &MsgCreateTopicRequest{TopicName: vNondetAtom("t2"), Description: vNondetAtom("d2"), OwnerAddress: vNondetAddr("o2")}
	vAssume(m1.ValidateBasic() == nil)
	vAssume(m2.ValidateBasic() == nil)
	vAssume(vAny(m1.TopicName != m2.TopicName, m1.Description != m2.Description, m1.OwnerAddress != m2.OwnerAddress))
	vCover("two different create-topic messages")
	vCheck(!vBytesEqual(m1.GetSignBytes(), m2.GetSignBytes()), "C14: different CreateTopic messages have different sign bytes")
}

func vHarnessSignBytesAddWriter() {
	m1 := &MsgAddWriterRequest{TopicName: vNondetAtom("t1"), Moniker: vNondetAtom("m1"), Description: vNondetAtom("d1"), WriterAddress: vNondetAddr("w1"), OwnerAddress: vNondetAddr("o1")}
	m2 := &MsgAddWriterRequest{TopicName: vNondetAtom("t2"), Moniker: vNondetAtom("m2"), Description: vNondetAtom("d2"), WriterAddress: vNondetAddr("w2"), OwnerAddress: vNondetAddr("o2")}
	vAssume(m1.ValidateBasic() == nil)
	vAssume(m2.ValidateBasic() == nil)
	vAssume(vAny(m1.TopicName != m2.TopicName, m1.Moniker != m2.Moniker, m1.Description != m2.Description, m1.WriterAddress != m2.WriterAddress, m1.OwnerAddress != m2.OwnerAddress))
	vCover("two different add-writer messages")
	vCheck(!vBytesEqual(m1.GetSignBytes(), m2.GetSignBytes()), "C14: different AddWriter messages have different sign bytes")
}

func vHarnessSignBytesDeleteWriter() {
	m1 := &MsgDeleteWriterRequest{TopicName: vNondetAtom("t1"), WriterAddress: vNondetAddr("w1"), OwnerAddress: vNondetAddr("o1")}
	m2 := &MsgDeleteWriterRequest{TopicName: vNondetAtom("t2"), WriterAddress: vNondetAddr("w2"), OwnerAddress: vNondetAddr("o2")}
	vAssume(m1.ValidateBasic() == nil)
	vAssume(m2.ValidateBasic() == nil)
	vAssume(vAny(m1.TopicName != m2.TopicName, m1.WriterAddress != m2.WriterAddress, m1.OwnerAddress != m2.OwnerAddress))
	vCover("two different delete-writer messages")
	vCheck(!vBytesEqual(m1.GetSignBytes(), m2.GetSignBytes()), "C14: different DeleteWriter messages have different sign bytes")
}

func vHarnessSignBytesAddRecord() {
	m1 := &MsgAddRecordRequest{TopicName: vNondetAtom("t1"), Key: vNondetBytes("k1", 70), Value: vNondetBytes("v1", 80), WriterAddress: vNondetAddr("w1"), OwnerAddress: vNondetAddr("o1"), FeePayerAddress: vFee("f1")}
	m2 := &MsgAddRecordRequest{TopicName: vNondetAtom("t2"), Key: vNondetBytes("k2", 70), Value: vNondetBytes("v2", 80), WriterAddress: vNondetAddr("w2"), OwnerAddress: vNondetAddr("o2"), FeePayerAddress: vFee("f2")}
	vAssume(m1.ValidateBasic() == nil)
	vAssume(m2.ValidateBasic() == nil)
	vAssume(vAny(m1.TopicName != m2.TopicName, !vBytesEqual(m1.Key, m2.Key), !vBytesEqual(m1.Value, m2.Value), m1.WriterAddress != m2.WriterAddress, m1.OwnerAddress != m2.OwnerAddress, m1.FeePayerAddress != m2.FeePayerAddress))
	vCover("two different add-record messages")
	vCheck(!vBytesEqual(m1.GetSignBytes(), m2.GetSignBytes()), "C14: different AddRecord messages have different sign bytes")
}

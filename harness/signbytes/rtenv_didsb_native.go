package __PKG__

import "bytes"

func vDocEqual(a, b *DIDDocument) bool {
	if a == nil || b == nil {
		return a == nil && b == nil
	}
	ma, _ := a.Marshal()
	mb, _ := b.Marshal()
	return bytes.Equal(ma, mb)
}

package __PKG__

// C14, same-type pairs for the seven PNFT messages.


const vInvalidAnywhere = "\xf8\xf9\xfa\xfb\xfc\xfd\xfe\xff"

// vTxt: a text field of at most 16 bytes (the JSON model is structural, so longer strings add
// nothing; the U+FFFD coercion is modelled for strings of up to 12 bytes)
func vTxt(site string) string {
	s := vNondetAtom(site)
	vAssume(len(s) <= 16)
	return s
}

// vClean: none of the strings contains a byte 0xF8..0xFF (bytes that are invalid in any UTF-8
// context; encoding/json and amino-JSON write each of them as U+FFFD)
func vClean(ss ...string) bool {
	ok := true
	for _, s := range ss {
		ok = vAll(ok, vNoBytesIn(s, 0, 1<<20, vInvalidAnywhere))
	}
	return ok
}

// vDistinctSignBytes asserts injectivity under two labels, so that the known collision class
// (text fields with bytes that are not valid UTF-8) is told apart from any other collision.
func vDistinctSignBytes(b1, b2 []byte, clean bool, label, labelInvalid string) {
	eq := vBytesEqual(b1, b2)
	if clean {
		vCheck(!eq, label)
	} else {
		vCheck(!eq, labelInvalid)
	}
}

func vHarnessSignBytesCreateDenom() {
	m1 := &MsgCreateDenomRequest{Id: vTxt("i1"), Name: vTxt("n1"), Symbol: vTxt("s1"), Description: vTxt("d1"), Uri: vTxt("u1"), UriHash: vTxt("h1"), Data: vTxt("x1"), Creator: vNondetAddr("c1")}
	m2 := &MsgCreateDenomRequest{Id: vTxt("i2"), Name: vTxt("n2"), Symbol: vTxt("s2"), Description: vTxt("d2"), Uri: vTxt("u2"), UriHash: vTxt("h2"), Data: vTxt("x2"), Creator: vNondetAddr("c2")}
	vAssume(vAny(m1.Id != m2.Id, m1.Name != m2.Name, m1.Symbol != m2.Symbol, m1.Description != m2.Description, m1.Uri != m2.Uri, m1.UriHash != m2.UriHash, m1.Data != m2.Data, m1.Creator != m2.Creator))
	vCover("two different create-denom messages")
	vAssume(m1.ValidateBasic() == nil)
	vAssume(m2.ValidateBasic() == nil)
	vDistinctSignBytes(m1.GetSignBytes(), m2.GetSignBytes(), vClean(m1.Id, m2.Id, m1.Name, m2.Name, m1.Symbol, m2.Symbol, m1.Description, m2.Description, m1.Uri, m2.Uri, m1.UriHash, m2.UriHash, m1.Data, m2.Data),
		"C14: different CreateDenom messages have different sign bytes", "C14: CreateDenom messages that differ only in bytes that are not valid UTF-8 have different legacy sign bytes")
}

func vHarnessSignBytesUpdateDenom() {
	m1 := &MsgUpdateDenomRequest{Id: vTxt("i1"), Name: vTxt("n1"), Symbol: vTxt("s1"), Description: vTxt("d1"), Uri: vTxt("u1"), UriHash: vTxt("h1"), Data: vTxt("x1"), Updater: vNondetAddr("c1")}
	m2 := &MsgUpdateDenomRequest{Id: vTxt("i2"), Name: vTxt("n2"), Symbol: vTxt("s2"), Description: vTxt("d2"), Uri: vTxt("u2"), UriHash: vTxt("h2"), Data: vTxt("x2"), Updater: vNondetAddr("c2")}
	vAssume(vAny(m1.Id != m2.Id, m1.Name != m2.Name, m1.Symbol != m2.Symbol, m1.Description != m2.Description, m1.Uri != m2.Uri, m1.UriHash != m2.UriHash, m1.Data != m2.Data, m1.Updater != m2.Updater))
	vCover("two different update-denom messages")
	vAssume(m1.ValidateBasic() == nil)
	vAssume(m2.ValidateBasic() == nil)
	vDistinctSignBytes(m1.GetSignBytes(), m2.GetSignBytes(), vClean(m1.Id, m2.Id, m1.Name, m2.Name, m1.Symbol, m2.Symbol, m1.Description, m2.Description, m1.Uri, m2.Uri, m1.UriHash, m2.UriHash, m1.Data, m2.Data),
		"C14: different UpdateDenom messages have different sign bytes", "C14: UpdateDenom messages that differ only in bytes that are not valid UTF-8 have different legacy sign bytes")
}

func vHarnessSignBytesDeleteDenom() {
	m1 := &MsgDeleteDenomRequest{Id: vTxt("i1"), Remover: vNondetAddr("c1")}
	m2 := &MsgDeleteDenomRequest{Id: vTxt("i2"), Remover: vNondetAddr("c2")}
	vAssume(vAny(m1.Id != m2.Id, m1.Remover != m2.Remover))
	vAssume(m1.ValidateBasic() == nil)
	vAssume(m2.ValidateBasic() == nil)
	vDistinctSignBytes(m1.GetSignBytes(), m2.GetSignBytes(), vClean(m1.Id, m2.Id),
		"C14: different DeleteDenom messages have different sign bytes", "C14: DeleteDenom messages that differ only in bytes that are not valid UTF-8 have different legacy sign bytes")
}

func vHarnessSignBytesTransferDenom() {
	m1 := &MsgTransferDenomRequest{Id: vTxt("i1"), Sender: vNondetAddr("a1"), Receiver: vNondetAddr("b1")}
	m2 := &MsgTransferDenomRequest{Id: vTxt("i2"), Sender: vNondetAddr("a2"), Receiver: vNondetAddr("b2")}
	vAssume(vAny(m1.Id != m2.Id, m1.Sender != m2.Sender, m1.Receiver != m2.Receiver))
	vAssume(m1.ValidateBasic() == nil)
	vAssume(m2.ValidateBasic() == nil)
	vDistinctSignBytes(m1.GetSignBytes(), m2.GetSignBytes(), vClean(m1.Id, m2.Id),
		"C14: different TransferDenom messages have different sign bytes", "C14: TransferDenom messages that differ only in bytes that are not valid UTF-8 have different legacy sign bytes")
}

func vHarnessSignBytesMint() {
	m1 := &MsgMintPNFTRequest{DenomId: vTxt("e1"), Id: vTxt("i1"), Name: vTxt("n1"), Description: vTxt("d1"), Uri: vTxt("u1"), UriHash: vTxt("h1"), Data: vTxt("x1"), Creator: vNondetAddr("c1")}
	m2 := &MsgMintPNFTRequest{DenomId: vTxt("e2"), Id: vTxt("i2"), Name: vTxt("n2"), Description: vTxt("d2"), Uri: vTxt("u2"), UriHash: vTxt("h2"), Data: vTxt("x2"), Creator: vNondetAddr("c2")}
	vAssume(vAny(m1.DenomId != m2.DenomId, m1.Id != m2.Id, m1.Name != m2.Name, m1.Description != m2.Description, m1.Uri != m2.Uri, m1.UriHash != m2.UriHash, m1.Data != m2.Data, m1.Creator != m2.Creator))
	vCover("two different mint messages")
	vAssume(m1.ValidateBasic() == nil)
	vAssume(m2.ValidateBasic() == nil)
	vDistinctSignBytes(m1.GetSignBytes(), m2.GetSignBytes(), vClean(m1.DenomId, m2.DenomId, m1.Id, m2.Id, m1.Name, m2.Name, m1.Description, m2.Description, m1.Uri, m2.Uri, m1.UriHash, m2.UriHash, m1.Data, m2.Data),
		"C14: different MintPNFT messages have different sign bytes", "C14: MintPNFT messages that differ only in bytes that are not valid UTF-8 have different legacy sign bytes")
}

func vHarnessSignBytesTransferPNFT() {
	m1 := &MsgTransferPNFTRequest{DenomId: vTxt("e1"), Id: vTxt("i1"), Sender: vNondetAddr("a1"), Receiver: vNondetAddr("b1")}
	m2 := &MsgTransferPNFTRequest{DenomId: vTxt("e2"), Id: vTxt("i2"), Sender: vNondetAddr("a2"), Receiver: vNondetAddr("b2")}
	vAssume(vAny(m1.DenomId != m2.DenomId, m1.Id != m2.Id, m1.Sender != m2.Sender, m1.Receiver != m2.Receiver))
	vAssume(m1.ValidateBasic() == nil)
	vAssume(m2.ValidateBasic() == nil)
	vDistinctSignBytes(m1.GetSignBytes(), m2.GetSignBytes(), vClean(m1.DenomId, m2.DenomId, m1.Id, m2.Id),
		"C14: different TransferPNFT messages have different sign bytes", "C14: TransferPNFT messages that differ only in bytes that are not valid UTF-8 have different legacy sign bytes")
}

func vHarnessSignBytesBurn() {
	m1 := &MsgBurnPNFTRequest{DenomId: vTxt("e1"), Id: vTxt("i1"), Burner: vNondetAddr("a1")}
	m2 := &MsgBurnPNFTRequest{DenomId: vTxt("e2"), Id: vTxt("i2"), Burner: vNondetAddr("a2")}
	vAssume(vAny(m1.DenomId != m2.DenomId, m1.Id != m2.Id, m1.Burner != m2.Burner))
	vAssume(m1.ValidateBasic() == nil)
	vAssume(m2.ValidateBasic() == nil)
	vDistinctSignBytes(m1.GetSignBytes(), m2.GetSignBytes(), vClean(m1.DenomId, m2.DenomId, m1.Id, m2.Id),
		"C14: different BurnPNFT messages have different sign bytes", "C14: BurnPNFT messages that differ only in bytes that are not valid UTF-8 have different legacy sign bytes")
}

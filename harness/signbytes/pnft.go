package __PKG__

// C14, same-type pairs for the seven PNFT messages.

func vHarnessSignBytesCreateDenom() {
	m1 := &MsgCreateDenomRequest{Id: vNondetAtom("i1"), Name: vNondetAtom("n1"), Symbol: vNondetAtom("s1"), Description: vNondetAtom("d1"), Uri: vNondetAtom("u1"), UriHash: vNondetAtom("h1"), Data: vNondetAtom("x1"), Creator: vNondetAddr("c1")}
	m2 := &MsgCreateDenomRequest{Id: vNondetAtom("i2"), Name: vNondetAtom("n2"), Symbol: vNondetAtom("s2"), Description: vNondetAtom("d2"), Uri: vNondetAtom("u2"), UriHash: vNondetAtom("h2"), Data: vNondetAtom("x2"), Creator: vNondetAddr("c2")}
	vAssume(vAny(m1.Id != m2.Id, m1.Name != m2.Name, m1.Symbol != m2.Symbol, m1.Description != m2.Description, m1.Uri != m2.Uri, m1.UriHash != m2.UriHash, m1.Data != m2.Data, m1.Creator != m2.Creator))
	vCover("two different create-denom messages")
	vCheck(!vBytesEqual(m1.GetSignBytes(), m2.GetSignBytes()), "C14: different CreateDenom messages have different sign bytes")
}

func vHarnessSignBytesUpdateDenom() {
	m1 := &MsgUpdateDenomRequest{Id: vNondetAtom("i1"), Name: vNondetAtom("n1"), Symbol: vNondetAtom("s1"), Description: vNondetAtom("d1"), Uri: vNondetAtom("u1"), UriHash: vNondetAtom("h1"), Data: vNondetAtom("x1"), Updater: vNondetAddr("c1")}
	m2 := &MsgUpdateDenomRequest{Id: vNondetAtom("i2"), Name: vNondetAtom("n2"), Symbol: vNondetAtom("s2"), Description: vNondetAtom("d2"), Uri: vNondetAtom("u2"), UriHash: vNondetAtom("h2"), Data: vNondetAtom("x2"), Updater: vNondetAddr("c2")}
	vAssume(vAny(m1.Id != m2.Id, m1.Name != m2.Name, m1.Symbol != m2.Symbol, m1.Description != m2.Description, m1.Uri != m2.Uri, m1.UriHash != m2.UriHash, m1.Data != m2.Data, m1.Updater != m2.Updater))
	vCover("two different update-denom messages")
	vCheck(!vBytesEqual(m1.GetSignBytes(), m2.GetSignBytes()), "C14: different UpdateDenom messages have different sign bytes")
}

func vHarnessSignBytesDeleteDenom() {
	m1 := &MsgDeleteDenomRequest{Id: vNondetAtom("i1"), Remover: vNondetAddr("c1")}
	m2 := &MsgDeleteDenomRequest{Id: vNondetAtom("i2"), Remover: vNondetAddr("c2")}
	vAssume(vAny(m1.Id != m2.Id, m1.Remover != m2.Remover))
	vCheck(!vBytesEqual(m1.GetSignBytes(), m2.GetSignBytes()), "C14: different DeleteDenom messages have different sign bytes")
}

func vHarnessSignBytesTransferDenom() {
	m1 := &MsgTransferDenomRequest{Id: vNondetAtom("i1"), Sender: vNondetAddr("a1"), Receiver: vNondetAddr("b1")}
	m2 := &MsgTransferDenomRequest{Id: vNondetAtom("i2"), Sender: vNondetAddr("a2"), Receiver: vNondetAddr("b2")}
	vAssume(vAny(m1.Id != m2.Id, m1.Sender != m2.Sender, m1.Receiver != m2.Receiver))
	vCheck(!vBytesEqual(m1.GetSignBytes(), m2.GetSignBytes()), "C14: different TransferDenom messages have different sign bytes")
}

func vHarnessSignBytesMint() {
	m1 := &MsgMintPNFTRequest{DenomId: vNondetAtom("e1"), Id: vNondetAtom("i1"), Name: vNondetAtom("n1"), Description: vNondetAtom("d1"), Uri: vNondetAtom("u1"), UriHash: vNondetAtom("h1"), Data: vNondetAtom("x1"), Creator: vNondetAddr("c1")}
	m2 := &MsgMintPNFTRequest{DenomId: vNondetAtom("e2"), Id: vNondetAtom("i2"), Name: vNondetAtom("n2"), Description: vNondetAtom("d2"), Uri: vNondetAtom("u2"), UriHash: vNondetAtom("h2"), Data: vNondetAtom("x2"), Creator: vNondetAddr("c2")}
	vAssume(vAny(m1.DenomId != m2.DenomId, m1.Id != m2.Id, m1.Name != m2.Name, m1.Description != m2.Description, m1.Uri != m2.Uri, m1.UriHash != m2.UriHash, m1.Data != m2.Data, m1.Creator != m2.Creator))
	vCover("two different mint messages")
	vCheck(!vBytesEqual(m1.GetSignBytes(), m2.GetSignBytes()), "C14: different MintPNFT messages have different sign bytes")
}

func vHarnessSignBytesTransferPNFT() {
	m1 := &MsgTransferPNFTRequest{DenomId: vNondetAtom("e1"), Id: vNondetAtom("i1"), Sender: vNondetAddr("a1"), Receiver: vNondetAddr("b1")}
	m2 := &MsgTransferPNFTRequest{DenomId: vNondetAtom("e2"), Id: vNondetAtom("i2"), Sender: vNondetAddr("a2"), Receiver: vNondetAddr("b2")}
	vAssume(vAny(m1.DenomId != m2.DenomId, m1.Id != m2.Id, m1.Sender != m2.Sender, m1.Receiver != m2.Receiver))
	vCheck(!vBytesEqual(m1.GetSignBytes(), m2.GetSignBytes()), "C14: different TransferPNFT messages have different sign bytes")
}

func vHarnessSignBytesBurn() {
	m1 := &MsgBurnPNFTRequest{DenomId: vNondetAtom("e1"), Id: vNondetAtom("i1"), Burner: vNondetAddr("a1")}
	m2 := &MsgBurnPNFTRequest{DenomId: vNondetAtom("e2"), Id: vNondetAtom("i2"), Burner: vNondetAddr("a2")}
	vAssume(vAny(m1.DenomId != m2.DenomId, m1.Id != m2.Id, m1.Burner != m2.Burner))
	vCheck(!vBytesEqual(m1.GetSignBytes(), m2.GetSignBytes()), "C14: different BurnPNFT messages have different sign bytes")
}

package __PKG__

func vDocEqual(a, b *DIDDocument) bool { return false }

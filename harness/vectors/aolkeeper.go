package __PKG__

import (
	sdk "github.com/cosmos/cosmos-sdk/types"
	"github.com/medibloc/panacea-core/v2/x/aol/types"
)

// Translator validation at keeper level: a concrete history in the style of
// x/aol/keeper/*_test.go (create topic, add writer, add records, queries, refusals) runs through
// the interpreter over the symbolic store / codec models and through the real keeper over a real
// IAVL store; every response value must agree.

const (
	vVecA = "panacea154p6kyu9kqgvcmq63w3vpn893ssy6anpu8ykfq"
	vVecB = "panacea1qypqxpq9qcrsszg2pvxq6rs0zqg3yyc5jdscal"
)

func vHarnessVectorsAolKeeper() {
	ctx, k := vEnvAol()
	c := sdk.WrapSDKContext(ctx)
	ms := msgServer{k}
	_, err := ms.CreateTopic(c, &types.MsgCreateTopicRequest{TopicName: "topic", Description: "d", OwnerAddress: vVecA})
	vRecordBool("create topic", err == nil)
	_, err = ms.CreateTopic(c, &types.MsgCreateTopicRequest{TopicName: "topic", Description: "again", OwnerAddress: vVecA})
	vRecordBool("create topic twice", err == nil)
	_, err = ms.AddRecord(c, &types.MsgAddRecordRequest{TopicName: "topic", Key: []byte("k0"), Value: []byte("v0"), WriterAddress: vVecB, OwnerAddress: vVecA})
	vRecordBool("add record before being a writer", err == nil)
	_, err = ms.AddWriter(c, &types.MsgAddWriterRequest{TopicName: "topic", Moniker: "bob", Description: "w", WriterAddress: vVecB, OwnerAddress: vVecA})
	vRecordBool("add writer", err == nil)
	_, err = ms.AddWriter(c, &types.MsgAddWriterRequest{TopicName: "topic", Moniker: "bob", Description: "w", WriterAddress: vVecB, OwnerAddress: vVecA})
	vRecordBool("add writer twice", err == nil)
	_, err = ms.AddWriter(c, &types.MsgAddWriterRequest{TopicName: "nope", Moniker: "bob", WriterAddress: vVecB, OwnerAddress: vVecA})
	vRecordBool("add writer to a missing topic", err == nil)
	r0, err := ms.AddRecord(c, &types.MsgAddRecordRequest{TopicName: "topic", Key: []byte("k0"), Value: []byte("v0"), WriterAddress: vVecB, OwnerAddress: vVecA})
	vRecordBool("add record 0", err == nil)
	if err == nil {
		vRecordU64("offset 0", r0.Offset)
	}
	r1, err := ms.AddRecord(c, &types.MsgAddRecordRequest{TopicName: "topic", Key: []byte("k1"), Value: []byte("v1"), WriterAddress: vVecB, OwnerAddress: vVecA})
	vRecordBool("add record 1", err == nil)
	if err == nil {
		vRecordU64("offset 1", r1.Offset)
	}
	tq, err := k.Topic(c, &types.QueryTopicRequest{OwnerAddress: vVecA, TopicName: "topic"})
	vRecordBool("topic query", err == nil)
	if err == nil {
		vRecordU64("total records", tq.Topic.TotalRecords)
		vRecordU64("total writers", tq.Topic.TotalWriters)
		vRecordString("topic description", tq.Topic.Description)
	}
	ts, err := k.Topics(c, &types.QueryTopicsRequest{OwnerAddress: vVecA})
	vRecordBool("topics query", err == nil)
	if err == nil {
		vRecordU64("topics listed", uint64(len(ts.TopicNames)))
		if len(ts.TopicNames) == 1 {
			vRecordString("topic listed", ts.TopicNames[0])
		}
	}
	ws, err := k.Writers(c, &types.QueryWritersRequest{OwnerAddress: vVecA, TopicName: "topic"})
	vRecordBool("writers query", err == nil)
	if err == nil {
		vRecordU64("writers listed", uint64(len(ws.WriterAddresses)))
		if len(ws.WriterAddresses) == 1 {
			vRecordString("writer listed", ws.WriterAddresses[0])
		}
	}
	wq, err := k.Writer(c, &types.QueryWriterRequest{OwnerAddress: vVecA, TopicName: "topic", WriterAddress: vVecB})
	vRecordBool("writer query", err == nil)
	if err == nil {
		vRecordString("writer moniker", wq.Writer.Moniker)
	}
	rq, err := k.Record(c, &types.QueryRecordRequest{OwnerAddress: vVecA, TopicName: "topic", Offset: 1})
	vRecordBool("record query 1", err == nil)
	if err == nil {
		vRecordBytes("record 1 key", rq.Record.Key)
		vRecordBytes("record 1 value", rq.Record.Value)
		vRecordString("record 1 writer", rq.Record.WriterAddress)
	}
	_, err = k.Record(c, &types.QueryRecordRequest{OwnerAddress: vVecA, TopicName: "topic", Offset: 2})
	vRecordBool("record query 2", err == nil)
	_, err = ms.DeleteWriter(c, &types.MsgDeleteWriterRequest{TopicName: "topic", WriterAddress: vVecB, OwnerAddress: vVecB})
	vRecordBool("delete writer by a non-owner", err == nil)
	_, err = ms.DeleteWriter(c, &types.MsgDeleteWriterRequest{TopicName: "topic", WriterAddress: vVecB, OwnerAddress: vVecA})
	vRecordBool("delete writer", err == nil)
	_, err = ms.AddRecord(c, &types.MsgAddRecordRequest{TopicName: "topic", Key: []byte("k2"), Value: []byte("v2"), WriterAddress: vVecB, OwnerAddress: vVecA})
	vRecordBool("add record after removal", err == nil)
	tq, err = k.Topic(c, &types.QueryTopicRequest{OwnerAddress: vVecA, TopicName: "topic"})
	if err == nil {
		vRecordU64("total records at the end", tq.Topic.TotalRecords)
		vRecordU64("total writers at the end", tq.Topic.TotalWriters)
	}
	_, err = k.Record(c, &types.QueryRecordRequest{OwnerAddress: vVecA, TopicName: "topic", Offset: 0})
	vRecordBool("record 0 still readable", err == nil)
	vCover("aol keeper vectors done")
}

package __PKG__

import (
	sdk "github.com/cosmos/cosmos-sdk/types"
	"github.com/medibloc/panacea-core/v2/x/pnft/types"
)

// Translator validation at keeper level for x/pnft (the repository has no PNFT tests): a concrete
// history over two denoms whose ids are prefixes of one another, through the interpreter (x/nft
// keeper executed over the symbolic store) and through the real keepers over IAVL.

const (
	vVecA = "panacea154p6kyu9kqgvcmq63w3vpn893ssy6anpu8ykfq"
	vVecB = "panacea1qypqxpq9qcrsszg2pvxq6rs0zqg3yyc5jdscal"
)

func vHarnessVectorsPnftKeeper() {
	ctx, k := vEnvPnft()
	c := sdk.WrapSDKContext(ctx)
	ms := msgServer{k}
	_, err := ms.CreateDenom(c, &types.MsgCreateDenomRequest{Id: "ab", Name: "n", Symbol: "s", Description: "first", Creator: vVecA})
	vRecordBool("create denom ab", err == nil)
	_, err = ms.CreateDenom(c, &types.MsgCreateDenomRequest{Id: "ab", Name: "n2", Symbol: "s", Creator: vVecB})
	vRecordBool("create denom ab twice", err == nil)
	_, err = ms.CreateDenom(c, &types.MsgCreateDenomRequest{Id: "abc", Name: "m", Symbol: "s", Creator: vVecB})
	vRecordBool("create denom abc", err == nil)
	_, err = ms.MintPNFT(c, &types.MsgMintPNFTRequest{DenomId: "ab", Id: "c", Name: "tok", Uri: "u", Data: "d", Creator: vVecB})
	vRecordBool("mint by a non-owner", err == nil)
	_, err = ms.MintPNFT(c, &types.MsgMintPNFTRequest{DenomId: "ab", Id: "c", Name: "tok", Uri: "u", Data: "d", Creator: vVecA})
	vRecordBool("mint ab/c", err == nil)
	_, err = ms.MintPNFT(c, &types.MsgMintPNFTRequest{DenomId: "ab", Id: "c", Name: "other", Creator: vVecA})
	vRecordBool("mint ab/c twice", err == nil)
	_, err = ms.MintPNFT(c, &types.MsgMintPNFTRequest{DenomId: "abc", Id: "c", Name: "tok2", Creator: vVecB})
	vRecordBool("mint abc/c", err == nil)
	_, err = ms.TransferPNFT(c, &types.MsgTransferPNFTRequest{DenomId: "ab", Id: "c", Sender: vVecB, Receiver: vVecB})
	vRecordBool("transfer by a non-owner", err == nil)
	_, err = ms.TransferPNFT(c, &types.MsgTransferPNFTRequest{DenomId: "ab", Id: "c", Sender: vVecA, Receiver: vVecB})
	vRecordBool("transfer ab/c to B", err == nil)
	p, err := k.PNFT(c, &types.QueryPNFTRequest{DenomId: "ab", Id: "c"})
	vRecordBool("query ab/c", err == nil)
	if err == nil {
		vRecordString("ab/c owner", p.Pnft.Owner)
		vRecordString("ab/c creator", p.Pnft.Creator)
		vRecordString("ab/c name", p.Pnft.Name)
		vRecordString("ab/c data", p.Pnft.Data)
	}
	ps, err := k.PNFTs(c, &types.QueryPNFTsRequest{DenomId: "ab"})
	vRecordBool("pnfts of ab", err == nil)
	if err == nil {
		vRecordU64("pnfts of ab: count", uint64(len(ps.Pnfts)))
	}
	po, err := k.PNFTsByDenomOwner(c, &types.QueryPNFTsByDenomOwnerRequest{DenomId: "ab", Owner: vVecA})
	vRecordBool("pnfts of ab held by A", err == nil)
	if err == nil {
		vRecordU64("pnfts of ab held by A: count", uint64(len(po.Pnfts)))
	}
	po, err = k.PNFTsByDenomOwner(c, &types.QueryPNFTsByDenomOwnerRequest{DenomId: "abc", Owner: vVecB})
	if err == nil {
		vRecordU64("pnfts of abc held by B: count", uint64(len(po.Pnfts)))
	}
	do, err := k.DenomsByOwner(c, &types.QueryDenomsByOwnerRequest{Owner: vVecA})
	vRecordBool("denoms of A", err == nil)
	if err == nil {
		vRecordU64("denoms of A: count", uint64(len(do.Denoms)))
		if len(do.Denoms) == 1 {
			vRecordString("denoms of A: id", do.Denoms[0].Id)
		}
	}
	_, err = ms.DeleteDenom(c, &types.MsgDeleteDenomRequest{Id: "ab", Remover: vVecA})
	vRecordBool("delete a denom that still has a token", err == nil)
	_, err = ms.BurnPNFT(c, &types.MsgBurnPNFTRequest{DenomId: "ab", Id: "c", Burner: vVecA})
	vRecordBool("burn by the former owner", err == nil)
	_, err = ms.BurnPNFT(c, &types.MsgBurnPNFTRequest{DenomId: "ab", Id: "c", Burner: vVecB})
	vRecordBool("burn ab/c", err == nil)
	_, err = k.PNFT(c, &types.QueryPNFTRequest{DenomId: "ab", Id: "c"})
	vRecordBool("query ab/c after burn", err == nil)
	_, err = k.PNFT(c, &types.QueryPNFTRequest{DenomId: "abc", Id: "c"})
	vRecordBool("query abc/c after burning ab/c", err == nil)
	_, err = ms.UpdateDenom(c, &types.MsgUpdateDenomRequest{Id: "ab", Name: "renamed", Symbol: "s", Updater: vVecB})
	vRecordBool("update denom by a non-owner", err == nil)
	_, err = ms.UpdateDenom(c, &types.MsgUpdateDenomRequest{Id: "ab", Name: "renamed", Symbol: "s", Updater: vVecA})
	vRecordBool("update denom", err == nil)
	_, err = ms.TransferDenom(c, &types.MsgTransferDenomRequest{Id: "ab", Sender: vVecA, Receiver: vVecB})
	vRecordBool("transfer denom", err == nil)
	d, err := k.Denom(c, &types.QueryDenomRequest{Id: "ab"})
	vRecordBool("query denom ab", err == nil)
	if err == nil {
		vRecordString("denom ab name", d.Denom.Name)
		vRecordString("denom ab owner", d.Denom.Owner)
	}
	_, err = ms.DeleteDenom(c, &types.MsgDeleteDenomRequest{Id: "ab", Remover: vVecA})
	vRecordBool("delete denom by the former owner", err == nil)
	_, err = ms.DeleteDenom(c, &types.MsgDeleteDenomRequest{Id: "ab", Remover: vVecB})
	vRecordBool("delete denom", err == nil)
	_, err = k.Denom(c, &types.QueryDenomRequest{Id: "ab"})
	vRecordBool("query denom ab after delete", err == nil)
	d, err = k.Denom(c, &types.QueryDenomRequest{Id: "abc"})
	vRecordBool("query denom abc after deleting ab", err == nil)
	if err == nil {
		vRecordString("denom abc owner", d.Denom.Owner)
	}
	vCover("pnft keeper vectors done")
}

package __PKG__

import (
	"encoding/binary"
	"fmt"
)

// Translator validation: the vectors of types/compkey/compkey_test.go (a key of one string and
// one big-endian uint64) through the interpreter and the real code.

type vVecKey struct {
	str string
	num uint64
}

func (m vVecKey) ByteSlices() [][]byte {
	n := make([]byte, 8)
	binary.BigEndian.PutUint64(n, m.num)
	return [][]byte{[]byte(m.str), n}
}

func (m *vVecKey) FromByteSlices(bzs [][]byte) error {
	if len(bzs) != 2 {
		return fmt.Errorf("invalid len of byte slices")
	}
	m.str = string(bzs[0])
	m.num = binary.BigEndian.Uint64(bzs[1])
	return nil
}

func (m vVecKey) Strings() []string              { return []string{m.str} }
func (m *vVecKey) FromStrings(s []string) error { return nil }

func vVecStr(n int) string {
	b := make([]byte, n)
	for i := range b {
		b[i] = byte('a' + i%26)
	}
	return string(b)
}

func vHarnessVectorsCompkey() {
	in := vVecKey{str: "hello", num: 100}
	enc, err := Encode(&in)
	vRecordBool("encode ok", err == nil)
	vRecordBytes("encode hello/100", enc)
	var out vVecKey
	vRecordBool("decode ok", Decode(enc, &out) == nil)
	vRecordString("decoded str", out.str)
	vRecordU64("decoded num", out.num)
	// TestEncodeDecode at the maximal element length, TestEncodeFailure one beyond it
	big := vVecKey{str: vVecStr(255), num: 1 << 63}
	encBig, err := Encode(&big)
	vRecordBool("encode 255 ok", err == nil)
	vRecordU64("encode 255 len", uint64(len(encBig)))
	var outBig vVecKey
	vRecordBool("decode 255 ok", Decode(encBig, &outBig) == nil)
	vRecordBool("decode 255 equal", outBig.str == big.str && outBig.num == big.num)
	_, err = Encode(&vVecKey{str: vVecStr(256), num: 100})
	vRecordBool("encode 256 ok", err == nil)
	vRecordBool("mustencode 256 panics", vCatch(func() { MustEncode(&vVecKey{str: vVecStr(256), num: 100}) }))
	// TestDecodeFailure
	var out2 vVecKey
	vRecordBool("decode truncated ok", Decode(enc[:len(enc)-1], &out2) == nil)
	vRecordBool("mustdecode truncated panics", vCatch(func() { MustDecode(enc[:len(enc)-1], &out2) }))
	vRecordBool("decode with trailing byte ok", Decode(append(append([]byte{}, enc...), 0), &out2) == nil)
	vRecordBool("decode empty ok", Decode(nil, &out2) == nil)
	// TestPartialEncode / TestPartialEncodeFailure
	part, err := PartialEncode(&in, 1)
	vRecordBool("partial 1 ok", err == nil)
	vRecordBytes("partial 1", part)
	_, err = PartialEncode(&in, 3)
	vRecordBool("partial 3 ok", err == nil)
	part0, err := PartialEncode(&in, 0)
	vRecordBool("partial 0 ok", err == nil)
	vRecordU64("partial 0 len", uint64(len(part0)))
	vRecordBool("mustpartial 3 panics", vCatch(func() { MustPartialEncode(&in, 3) }))
	vCover("compkey vectors done")
}

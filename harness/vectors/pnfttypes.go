package __PKG__

// Translator validation for the PNFT validators (the repository has no PNFT tests): boundary
// vectors of every ValidateBasic through the interpreter and the real code.

const (
	vVecA = "panacea154p6kyu9kqgvcmq63w3vpn893ssy6anpu8ykfq"
	vVecB = "panacea1qypqxpq9qcrsszg2pvxq6rs0zqg3yyc5jdscal"
)

func vHarnessVectorsPNFTTypes() {
	for _, c := range []struct{ label, id, name, symbol, creator string }{
		{"plain", "denom1", "n", "s", vVecA}, {"empty id", "", "n", "s", vVecA}, {"nul in id", "a\x00b", "n", "s", vVecA},
		{"empty name", "d", "", "s", vVecA}, {"empty symbol", "d", "n", "", vVecA}, {"empty creator", "d", "n", "s", ""},
		{"bad checksum", "d", "n", "s", vVecA[:len(vVecA)-1] + "x"}, {"slash in id", "a/b", "n", "s", vVecA}, {"utf8 id", "caf\xc3\xa9", "n", "s", vVecA},
		{"invalid utf8 id", "\xff", "n", "s", vVecA}, {"space id", " ", "n", "s", vVecA}} {
		vRecordBool("create denom "+c.label, (&MsgCreateDenomRequest{Id: c.id, Name: c.name, Symbol: c.symbol, Creator: c.creator}).ValidateBasic() == nil)
		vRecordBool("update denom "+c.label, (&MsgUpdateDenomRequest{Id: c.id, Name: c.name, Symbol: c.symbol, Updater: c.creator}).ValidateBasic() == nil)
		vRecordBool("delete denom "+c.label, (&MsgDeleteDenomRequest{Id: c.id, Remover: c.creator}).ValidateBasic() == nil)
		vRecordBool("transfer denom "+c.label, (&MsgTransferDenomRequest{Id: c.id, Sender: c.creator, Receiver: vVecB}).ValidateBasic() == nil)
		vRecordBool("mint "+c.label, (&MsgMintPNFTRequest{DenomId: "d", Id: c.id, Name: c.name, Creator: c.creator}).ValidateBasic() == nil)
		vRecordBool("mint into "+c.label, (&MsgMintPNFTRequest{DenomId: c.id, Id: "t", Name: c.name, Creator: c.creator}).ValidateBasic() == nil)
		vRecordBool("transfer pnft "+c.label, (&MsgTransferPNFTRequest{DenomId: "d", Id: c.id, Sender: c.creator, Receiver: vVecB}).ValidateBasic() == nil)
		vRecordBool("burn "+c.label, (&MsgBurnPNFTRequest{DenomId: "d", Id: c.id, Burner: c.creator}).ValidateBasic() == nil)
	}
	vRecordBool("transfer denom to an invalid receiver", (&MsgTransferDenomRequest{Id: "d", Sender: vVecA, Receiver: "nope"}).ValidateBasic() == nil)
	vRecordBool("transfer pnft to an empty receiver", (&MsgTransferPNFTRequest{DenomId: "d", Id: "t", Sender: vVecA}).ValidateBasic() == nil)
	vRecordBytes("mint signer", (&MsgMintPNFTRequest{DenomId: "d", Id: "t", Name: "n", Creator: vVecB}).GetSigners()[0])
	vRecordBytes("transfer denom signer", (&MsgTransferDenomRequest{Id: "d", Sender: vVecA, Receiver: vVecB}).GetSigners()[0])
	vCover("pnft type vectors done")
}

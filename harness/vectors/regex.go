package __PKG__

import "regexp"

// Translator validation for the regexp encoder: the patterns of the repository and the pattern
// shapes the encoder supports beyond them (open end, Unicode case folding, counted repetition)
// are matched against strings that are *symbolic but pinned* to a constant, so the verdict comes
// from the byte-level SMT encoding, and compared with Go's regexp in the native replay.

func vPinned(site, val string) string {
	s := vNondetString(site, 24)
	vAssume(s == val)
	return s
}

func vHarnessVectorsRegex() {
	pats := []struct{ name, pat string }{
		{"topic", "^[A-Za-z0-9._-]+$"},
		{"topic-open", "^[A-Za-z0-9._-]+"},
		{"topic-fold", "(?i)^[a-z0-9._-]+$"},
		{"nonspace", `^\S+$`},
		{"counted", "^[a-c]{2,4}x$"},
		{"did", "^did:panacea:[1-9A-HJ-NP-Za-km-z]{4,6}$"},
	}
	vals := []struct{ name, val string }{
		{"plain", "ab.c-_9"}, {"empty", ""}, {"slash", "a/b"}, {"lead-slash", "/ab"}, {"kelvin", "a\xe2\x84\xaa"}, {"long-s", "\xc5\xbfx"},
		{"invalid-utf8", "a\xffb"}, {"newline", "ab\n"}, {"space", "a b"}, {"abc", "abcx"}, {"abcabc", "abcabc"}, {"upper", "ABc"},
		{"did-ok", "did:panacea:7Prd7"}, {"did-zero", "did:panacea:7Pr0d"}, {"nbsp", "a\xc2\xa0b"},
	}
	for _, p := range pats {
		for _, v := range vals {
			ok, err := regexp.MatchString(p.pat, vPinned(p.name+"."+v.name, v.val))
			vRecordBool(p.name+" ~ "+v.name, ok && err == nil)
		}
	}
	vCover("regex vectors done")
}

package __PKG__

import (
	sdk "github.com/cosmos/cosmos-sdk/types"
	"github.com/medibloc/panacea-core/v2/x/aol/types"
)

// Translator validation for the genesis path: a concrete AOL state (in the style of
// x/aol/genesis_test.go) is exported, validated, imported into a second store and read back,
// through the interpreter and through the real code; exported map keys (string form of the
// composite keys), counts and every value read back must agree.

const (
	vVecA = "panacea154p6kyu9kqgvcmq63w3vpn893ssy6anpu8ykfq"
	vVecB = "panacea1qypqxpq9qcrsszg2pvxq6rs0zqg3yyc5jdscal"
)

func vHarnessVectorsAolGenesis() {
	ctx1, k1 := vEnvAolG()
	a, _ := sdk.AccAddressFromBech32(vVecA)
	b, _ := sdk.AccAddressFromBech32(vVecB)
	k1.SetOwner(ctx1, types.OwnerCompositeKey{OwnerAddress: a}, types.Owner{TotalTopics: 1})
	tk := types.TopicCompositeKey{OwnerAddress: a, TopicName: "topic"}
	k1.SetTopic(ctx1, tk, types.Topic{Description: "d", TotalRecords: 12, TotalWriters: 1})
	wk := types.WriterCompositeKey{OwnerAddress: a, TopicName: "topic", WriterAddress: b}
	k1.SetWriter(ctx1, wk, types.Writer{Moniker: "bob", Description: "w", NanoTimestamp: 7})
	rk := types.RecordCompositeKey{OwnerAddress: a, TopicName: "topic", Offset: 11}
	k1.SetRecord(ctx1, rk, types.Record{Key: []byte("k"), Value: []byte("v"), NanoTimestamp: 9, WriterAddress: vVecB})
	gs := ExportGenesis(ctx1, k1)
	vRecordBool("export validates", gs.Validate() == nil)
	vRecordU64("owners", uint64(len(gs.Owners)))
	vRecordU64("topics", uint64(len(gs.Topics)))
	vRecordU64("writers", uint64(len(gs.Writers)))
	vRecordU64("records", uint64(len(gs.Records)))
	for key := range gs.Owners {
		vRecordString("owner key", key)
	}
	for key := range gs.Topics {
		vRecordString("topic key", key)
	}
	for key := range gs.Writers {
		vRecordString("writer key", key)
	}
	for key, r := range gs.Records {
		vRecordString("record key", key)
		vRecordBytes("exported record value", r.Value)
	}
	ctx2, k2 := vEnvAolG()
	InitGenesis(ctx2, k2, *gs)
	vRecordBool("record imported", k2.HasRecord(ctx2, rk))
	r := k2.GetRecord(ctx2, rk)
	vRecordBytes("imported record key", r.Key)
	vRecordString("imported record writer", r.WriterAddress)
	vRecordU64("imported record time", uint64(r.NanoTimestamp))
	vRecordBool("record at offset 17 (0x11) absent", !k2.HasRecord(ctx2, types.RecordCompositeKey{OwnerAddress: a, TopicName: "topic", Offset: 17}))
	t := k2.GetTopic(ctx2, tk)
	vRecordU64("imported total records", t.TotalRecords)
	vRecordString("imported description", t.Description)
	w := k2.GetWriter(ctx2, wk)
	vRecordString("imported moniker", w.Moniker)
	vRecordU64("imported owner topics", k2.GetOwner(ctx2, types.OwnerCompositeKey{OwnerAddress: a}).TotalTopics)
	vCover("aol genesis vectors done")
}

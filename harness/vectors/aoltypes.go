package __PKG__

// Translator validation for the AOL validators and counters (x/aol/types/topic_test.go plus
// boundary vectors of the documented limits).

const vVecOwner = "panacea154p6kyu9kqgvcmq63w3vpn893ssy6anpu8ykfq"

func vVecRep(c byte, n int) string {
	b := make([]byte, n)
	for i := range b {
		b[i] = c
	}
	return string(b)
}

func vHarnessVectorsAOL() {
	// TestIncrease_Decrease
	t := Topic{TotalRecords: 0, TotalWriters: 0, Description: "test topic"}
	t = t.IncreaseTotalWriters()
	vRecordU64("writers after inc", t.TotalWriters)
	t = t.IncreaseTotalRecords()
	vRecordU64("records after inc", t.TotalRecords)
	t = t.DecreaseTotalWriters()
	vRecordU64("writers after dec", t.TotalWriters)
	vRecordString("description kept", t.GetDescription())
	// limits
	for _, c := range []struct{ label, name string }{
		{"plain", "topic-1_a.B"}, {"empty", ""}, {"len70", vVecRep('a', 70)}, {"len71", vVecRep('a', 71)},
		{"space", "a b"}, {"slash", "a/b"}, {"nul", "a\x00b"}, {"utf8", "caf\xc3\xa9"}, {"newline", "ab\n"}} {
		vRecordBool("topic name "+c.label, validateTopicName(c.name) == nil)
		vRecordBool("moniker "+c.label, validateMoniker(c.name) == nil)
	}
	vRecordBool("description 5000", validateDescription(vVecRep('d', 5000)) == nil)
	vRecordBool("description 5001", validateDescription(vVecRep('d', 5001)) == nil)
	vRecordBool("description 2501 two-byte runes", validateDescription(vVecRep('\xc3', 1)+vVecRep('\xa9', 5001)) == nil)
	ok := &MsgCreateTopicRequest{TopicName: "topic", Description: "d", OwnerAddress: vVecOwner}
	vRecordBool("create-topic valid", ok.ValidateBasic() == nil)
	vRecordBytes("create-topic signer", ok.GetSigners()[0])
	vRecordBool("create-topic bad checksum", (&MsgCreateTopicRequest{TopicName: "topic", OwnerAddress: vVecOwner[:len(vVecOwner)-1] + "x"}).ValidateBasic() == nil)
	vRecordBool("create-topic other prefix", (&MsgCreateTopicRequest{TopicName: "topic", OwnerAddress: "cosmos1qypqxpq9qcrsszg2pvxq6rs0zqg3yyc5lzv7xu"}).ValidateBasic() == nil)
	vRecordBool("create-topic empty owner", (&MsgCreateTopicRequest{TopicName: "topic"}).ValidateBasic() == nil)
	vRecordBool("add-record valid", (&MsgAddRecordRequest{TopicName: "topic", Key: []byte("k"), Value: []byte("v"), WriterAddress: vVecOwner, OwnerAddress: vVecOwner}).ValidateBasic() == nil)
	vRecordBool("add-record nil key", (&MsgAddRecordRequest{TopicName: "topic", Value: []byte("v"), WriterAddress: vVecOwner, OwnerAddress: vVecOwner}).ValidateBasic() == nil)
	vRecordBool("add-record key 71", (&MsgAddRecordRequest{TopicName: "topic", Key: []byte(vVecRep('k', 71)), Value: []byte("v"), WriterAddress: vVecOwner, OwnerAddress: vVecOwner}).ValidateBasic() == nil)
	vRecordBool("add-record value 5001", (&MsgAddRecordRequest{TopicName: "topic", Key: []byte("k"), Value: []byte(vVecRep('v', 5001)), WriterAddress: vVecOwner, OwnerAddress: vVecOwner}).ValidateBasic() == nil)
	vCover("aol vectors done")
}

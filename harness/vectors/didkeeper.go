package __PKG__

import (
	sdk "github.com/cosmos/cosmos-sdk/types"
	"github.com/medibloc/panacea-core/v2/x/did/types"
)

// Translator validation at keeper level for x/did: a concrete history in the style of
// x/did/keeper/msg_server_did_test.go (create, duplicate create, update with wrong / right
// sequence, key rotation, deactivate, everything refused afterwards) through the interpreter
// (idealised signatures, symbolic store, codec model) and through the real keeper with real
// secp256k1 signatures; every verdict and sequence number must agree.

const (
	vVecDid  = "did:panacea:7Prd74ry1Uct87nZqL3ny7aR7Cg46JamVbJgk8azVgUm"
	vVecFrom = "panacea154p6kyu9kqgvcmq63w3vpn893ssy6anpu8ykfq"
)

func vVecDidDoc(k vKey) *types.DIDDocument {
	id := types.NewVerificationMethodID(vVecDid, "key1")
	vm := &types.VerificationMethod{Id: id, Type: types.ES256K_2019, Controller: vVecDid, PublicKeyBase58: k.PubB58}
	return &types.DIDDocument{Id: vVecDid, Contexts: &types.JSONStringOrStrings{types.ContextDIDV1}, VerificationMethods: []*types.VerificationMethod{vm},
		Authentications: []types.VerificationRelationship{types.NewVerificationRelationship(id)}}
}

func vHarnessVectorsDidKeeper() {
	ctx, k := vEnvDid()
	c := sdk.WrapSDKContext(ctx)
	ms := msgServer{k}
	k0, k1 := vKeyPair("k0"), vKeyPair("k1")
	id := types.NewVerificationMethodID(vVecDid, "key1")
	doc0, doc1 := vVecDidDoc(k0), vVecDidDoc(k1)
	query := func(label string) {
		r, err := k.DID(c, &types.QueryDIDRequest{DidBase64: vB64(vVecDid)})
		vRecordBool(label+": query ok", err == nil)
		if err == nil && r.DidDocumentWithSeq != nil {
			vRecordU64(label+": sequence", r.DidDocumentWithSeq.Sequence)
			if r.DidDocumentWithSeq.Document != nil {
				vRecordString(label+": id", r.DidDocumentWithSeq.Document.Id)
				vRecordBool(label+": lists k1", len(r.DidDocumentWithSeq.Document.VerificationMethods) == 1 && r.DidDocumentWithSeq.Document.VerificationMethods[0].PublicKeyBase58 == k1.PubB58)
			}
		}
	}
	query("empty")
	_, err := ms.CreateDID(c, &types.MsgCreateDIDRequest{Did: vVecDid, Document: doc0, VerificationMethodId: id, Signature: vSign(k1, doc0, 0), FromAddress: vVecFrom})
	vRecordBool("create signed by a key the document does not list", err == nil)
	_, err = ms.CreateDID(c, &types.MsgCreateDIDRequest{Did: vVecDid, Document: doc0, VerificationMethodId: id, Signature: vSign(k0, doc0, 1), FromAddress: vVecFrom})
	vRecordBool("create signed over sequence 1", err == nil)
	_, err = ms.CreateDID(c, &types.MsgCreateDIDRequest{Did: vVecDid, Document: doc0, VerificationMethodId: id, Signature: vSign(k0, doc0, 0), FromAddress: vVecFrom})
	vRecordBool("create", err == nil)
	query("created")
	_, err = ms.CreateDID(c, &types.MsgCreateDIDRequest{Did: vVecDid, Document: doc0, VerificationMethodId: id, Signature: vSign(k0, doc0, 0), FromAddress: vVecFrom})
	vRecordBool("create twice", err == nil)
	_, err = ms.UpdateDID(c, &types.MsgUpdateDIDRequest{Did: vVecDid, Document: doc1, VerificationMethodId: id, Signature: vSign(k0, doc1, 1), FromAddress: vVecFrom})
	vRecordBool("update signed over a future sequence", err == nil)
	_, err = ms.UpdateDID(c, &types.MsgUpdateDIDRequest{Did: vVecDid, Document: doc1, VerificationMethodId: id, Signature: vSign(k1, doc1, 0), FromAddress: vVecFrom})
	vRecordBool("update signed by the new key", err == nil)
	_, err = ms.UpdateDID(c, &types.MsgUpdateDIDRequest{Did: vVecDid, Document: doc1, VerificationMethodId: id, Signature: vSign(k0, doc1, 0), FromAddress: vVecFrom})
	vRecordBool("update (rotation to k1)", err == nil)
	query("rotated")
	_, err = ms.UpdateDID(c, &types.MsgUpdateDIDRequest{Did: vVecDid, Document: doc1, VerificationMethodId: id, Signature: vSign(k0, doc1, 0), FromAddress: vVecFrom})
	vRecordBool("replay of the accepted update", err == nil)
	_, err = ms.UpdateDID(c, &types.MsgUpdateDIDRequest{Did: vVecDid, Document: doc0, VerificationMethodId: id, Signature: vSign(k0, doc0, 1), FromAddress: vVecFrom})
	vRecordBool("update by the rotated-out key", err == nil)
	tomb := &types.DIDDocument{Id: vVecDid} // what a deactivation proof is made over
	_, err = ms.DeactivateDID(c, &types.MsgDeactivateDIDRequest{Did: vVecDid, VerificationMethodId: id, Signature: vSign(k0, tomb, 1), FromAddress: vVecFrom})
	vRecordBool("deactivate by the rotated-out key", err == nil)
	_, err = ms.DeactivateDID(c, &types.MsgDeactivateDIDRequest{Did: vVecDid, VerificationMethodId: id, Signature: vSign(k1, doc1, 1), FromAddress: vVecFrom})
	vRecordBool("deactivate with a proof over the stored document", err == nil)
	_, err = ms.DeactivateDID(c, &types.MsgDeactivateDIDRequest{Did: vVecDid, VerificationMethodId: id, Signature: vSign(k1, tomb, 0), FromAddress: vVecFrom})
	vRecordBool("deactivate with a proof over the old sequence", err == nil)
	_, err = ms.DeactivateDID(c, &types.MsgDeactivateDIDRequest{Did: vVecDid, VerificationMethodId: id, Signature: vSign(k1, tomb, 1), FromAddress: vVecFrom})
	vRecordBool("deactivate", err == nil)
	query("deactivated")
	_, err = ms.CreateDID(c, &types.MsgCreateDIDRequest{Did: vVecDid, Document: doc0, VerificationMethodId: id, Signature: vSign(k0, doc0, 0), FromAddress: vVecFrom})
	vRecordBool("create after deactivation", err == nil)
	_, err = ms.UpdateDID(c, &types.MsgUpdateDIDRequest{Did: vVecDid, Document: doc1, VerificationMethodId: id, Signature: vSign(k1, doc1, 2), FromAddress: vVecFrom})
	vRecordBool("update after deactivation", err == nil)
	_, err = ms.DeactivateDID(c, &types.MsgDeactivateDIDRequest{Did: vVecDid, VerificationMethodId: id, Signature: vSign(k1, tomb, 2), FromAddress: vVecFrom})
	vRecordBool("deactivate twice", err == nil)
	st := k.GetDIDDocument(ctx, vVecDid)
	vRecordBool("tombstone stored", st.Deactivated())
	vRecordU64("tombstone sequence", st.Sequence)
	vCover("did keeper vectors done")
}

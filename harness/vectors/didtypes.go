package __PKG__

// Translator validation (DESIGN §8): the repository's own test vectors (x/did/types/*_test.go)
// are pushed through the interpreter; every value the interpreter computes is recorded in a
// reachability label and must equal the value the real code computes in the native replay.

const vVecDID = "did:panacea:7Prd74ry1Uct87nZqL3ny7aR7Cg46JamVbJgk8azVgUm"
const vVecKey = "qoRmLNBEXoaKDE8dKffMq2DBNxacTEfvbKRuFrccYW1b"

func vVecDoc() DIDDocument {
	id1, id2 := NewVerificationMethodID(vVecDID, "key1"), NewVerificationMethodID(vVecDID, "key2")
	vm := VerificationMethod{Id: id1, Type: ES256K_2019, Controller: vVecDID, PublicKeyBase58: vVecKey}
	ded := NewVerificationRelationshipDedicated(VerificationMethod{Id: id2, Type: ES256K_2019, Controller: vVecDID, PublicKeyBase58: vVecKey})
	svc := NewService("service1", "LinkedDomains", "https://example.org")
	return NewDIDDocument(vVecDID, WithVerificationMethods([]*VerificationMethod{&vm}),
		WithAuthentications([]VerificationRelationship{NewVerificationRelationship(id1)}),
		WithAssertionMethods([]VerificationRelationship{ded}), WithServices([]*Service{&svc}))
}

func vHarnessVectorsDID() {
	// TestParseDID / TestDID_Empty
	d, err := ParseDID(vVecDID)
	vRecordBool("ParseDID valid", err == nil)
	vRecordString("ParseDID value", d)
	_, err = ParseDID("did:panacea:7Prd74ry1Uct87nZqL3n")
	vRecordBool("ParseDID short", err == nil)
	vRecordBool("EmptyDID empty", EmptyDID(""))
	vRecordBool("EmptyDID valid", EmptyDID(vVecDID))
	vRecordBool("ValidateDID valid", ValidateDID(vVecDID))
	vRecordBool("ValidateDID 0OIl", ValidateDID("did:panacea:0Prd74ry1Uct87nZqL3ny7aR7Cg46JamVbJgk8azVgUm"))
	vRecordBool("ValidateDID method", ValidateDID("did:panacex:7Prd74ry1Uct87nZqL3ny7aR7Cg46JamVbJgk8azVgUm"))
	// TestNewDIDDocument / TestDIDDocument_Invalid
	doc := vVecDoc()
	vRecordBool("doc valid", doc.Valid())
	vRecordString("doc id", doc.Id)
	vRecordBool("doc empty", doc.Empty())
	vRecordBool("zero doc empty", DIDDocument{}.Empty())
	badRel := []VerificationRelationship{NewVerificationRelationship(NewVerificationMethodID("invalid did", "key1"))}
	badSvc := NewService("", "", "")
	vRecordBool("invalid did", NewDIDDocument("invalid did").Valid())
	vRecordBool("invalid controller", NewDIDDocument(vVecDID, WithController("invalid did")).Valid())
	vRecordBool("invalid auth", NewDIDDocument(vVecDID, WithAuthentications(badRel)).Valid())
	vRecordBool("invalid assertion", NewDIDDocument(vVecDID, WithAssertionMethods(badRel)).Valid())
	vRecordBool("invalid keyagreement", NewDIDDocument(vVecDID, WithKeyAgreements(badRel)).Valid())
	vRecordBool("invalid capinv", NewDIDDocument(vVecDID, WithCapabilityInvocations(badRel)).Valid())
	vRecordBool("invalid capdel", NewDIDDocument(vVecDID, WithCapabilityDelegations(badRel)).Valid())
	vRecordBool("invalid services", NewDIDDocument(vVecDID, WithServices([]*Service{&badSvc})).Valid())
	// TestDIDDocument_VerificationMethodByID / From
	id1 := NewVerificationMethodID(vVecDID, "key1")
	found, ok := doc.VerificationMethodByID(id1)
	vRecordBool("byID found", ok)
	vRecordString("byID key", found.PublicKeyBase58)
	_, ok = doc.VerificationMethodByID(NewVerificationMethodID(vVecDID, "key2"))
	vRecordBool("byID key2 (only a dedicated assertion method)", ok)
	_, ok = doc.VerificationMethodFrom(doc.Authentications, id1)
	vRecordBool("from auth key1", ok)
	_, ok = doc.VerificationMethodFrom(doc.Authentications, NewVerificationMethodID(vVecDID, "key2"))
	vRecordBool("from auth key2", ok)
	_, ok = doc.VerificationMethodFrom(doc.AssertionMethods, NewVerificationMethodID(vVecDID, "key2"))
	vRecordBool("from assertion key2", ok)
	// TestContexts_Valid
	vRecordBool("ctx empty", ValidateContexts(JSONStringOrStrings{}))
	vRecordBool("ctx v1", ValidateContexts(JSONStringOrStrings{ContextDIDV1}))
	vRecordBool("ctx v1+x", ValidateContexts(JSONStringOrStrings{ContextDIDV1, "https://example.com"}))
	vRecordBool("ctx x+v1", ValidateContexts(JSONStringOrStrings{"https://example.com", ContextDIDV1}))
	vRecordBool("ctx v1+v1", ValidateContexts(JSONStringOrStrings{ContextDIDV1, ContextDIDV1}))
	vRecordBool("ctx nil", ValidateContexts(nil))
	// TestNewVerificationMethodID / TestVerificationMethodID_Valid
	vRecordString("vmid", id1)
	pid, err := ParseVerificationMethodID(vVecDID+"#key1", vVecDID)
	vRecordBool("parse vmid", err == nil)
	vRecordString("parse vmid value", pid)
	vRecordBool("vmid normal", ValidateVerificationMethodID(vVecDID+"#key1", vVecDID))
	vRecordBool("vmid space1", ValidateVerificationMethodID(vVecDID+"# key1", vVecDID))
	vRecordBool("vmid space2", ValidateVerificationMethodID(vVecDID+"#key1 ", vVecDID))
	vRecordBool("vmid empty suffix", ValidateVerificationMethodID(vVecDID+"#", vVecDID))
	vRecordBool("vmid no suffix", ValidateVerificationMethodID(vVecDID, vVecDID))
	vRecordBool("vmid invalid prefix", ValidateVerificationMethodID("invalid#key1", vVecDID))
	vRecordBool("vmid other did", ValidateVerificationMethodID("did:panacea:87nZqL3ny7aR7C7Prd74ry1Uctg46JamVbJgk8azVgUm#key1", vVecDID))
	long := make([]byte, MaxVerificationMethodIDLen+1)
	for i := range long {
		long[i] = 'k'
	}
	vRecordBool("vmid too long", ValidateVerificationMethodID(vVecDID+"#"+string(long), vVecDID))
	vRecordBool("vmid max long", ValidateVerificationMethodID(vVecDID+"#"+string(long[1:]), vVecDID))
	// TestKeyType_Valid
	vRecordBool("keytype es256k", ValidateKeyType(ES256K_2019))
	vRecordBool("keytype new", ValidateKeyType("NewKeyType2021"))
	vRecordBool("keytype empty", ValidateKeyType(""))
	// TestVerificationRelationship_Valid
	vRecordBool("rel id valid", NewVerificationRelationship(id1).Valid(vVecDID))
	vRecordBool("rel dedicated valid", doc.AssertionMethods[0].Valid(vVecDID))
	vRecordBool("rel invalid", NewVerificationRelationship("invalid").Valid(vVecDID))
	vRecordBool("rel dedicated invalid", NewVerificationRelationshipDedicated(VerificationMethod{Id: "invalid"}).Valid(vVecDID))
	// TestService_Valid
	vRecordBool("svc ok", NewService("service1", "LinkedDomains", "https://domain.com").Valid())
	vRecordBool("svc no id", NewService("", "LinkedDomains", "https://domain.com").Valid())
	vRecordBool("svc no type", NewService("service1", "", "https://domain.com").Valid())
	vRecordBool("svc no endpoint", NewService("service1", "LinkedDomains", "").Valid())
	// TestDIDDocumentWithSeq_*
	ws := NewDIDDocumentWithSeq(&doc, InitialSequence)
	vRecordBool("withseq empty", ws.Empty())
	vRecordBool("zero withseq empty", DIDDocumentWithSeq{}.Empty())
	vRecordBool("withseq valid", ws.Valid())
	vRecordBool("withseq invalid", DIDDocumentWithSeq{Document: &DIDDocument{Id: "invalid_did"}}.Valid())
	de := ws.Deactivate(InitialSequence + 1)
	vRecordBool("deactivated", de.Deactivated())
	vRecordBool("deactivated empty", de.Empty())
	vRecordBool("deactivated valid", de.Valid())
	vRecordU64("deactivated seq", de.Sequence)
	// TestMsgCreateDID (messages_did_test.go)
	msg := NewMsgCreateDIDResponse(doc.Id, doc, id1, []byte("my-sig"), "panacea154p6kyu9kqgvcmq63w3vpn893ssy6anpu8ykfq")
	vRecordBool("create validatebasic", msg.ValidateBasic() == nil)
	vRecordString("create type", msg.Type())
	vRecordU64("create signers", uint64(len(msg.GetSigners())))
	vRecordBytes("create signer", msg.GetSigners()[0])
	bad := msg
	bad.FromAddress = "panacea154p6kyu9kqgvcmq63w3vpn893ssy6anpu8ykfx"
	vRecordBool("create bad checksum", bad.ValidateBasic() == nil)
	bad = msg
	bad.Signature = nil
	vRecordBool("create no signature", bad.ValidateBasic() == nil)
	bad = msg
	bad.Did = "did:panacea:8Prd74ry1Uct87nZqL3ny7aR7Cg46JamVbJgk8azVgUm"
	vRecordBool("create other did", bad.ValidateBasic() == nil)
	vCover("did vectors done")
}

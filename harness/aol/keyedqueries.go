package __PKG__

import (
	sdk "github.com/cosmos/cosmos-sdk/types"
	"github.com/cosmos/cosmos-sdk/types/query"
	"github.com/medibloc/panacea-core/v2/x/aol/types"
)

// C17 for the paginated AOL queries with a client-chosen paging key: the key is one a client can
// hold (the next_key of an earlier forward page), the follow-up request uses it with any page size
// in either direction ("next page" as well as "back from here"). No such request may panic.

func vHarnessQueryTopicsFromKey() {
	ctx, k := vEnvAol()
	q := vNondetAddr("qOwner")
	qa := vDec(q)
	for i := 0; i < 3; i++ {
		name := vNondetAtom("t")
		vAssume(len(name) <= 70)
		tk := types.TopicCompositeKey{OwnerAddress: qa, TopicName: name}
		if vNondetBool("has") && !k.HasTopic(ctx, tk) {
			k.SetTopic(ctx, tk, types.Topic{})
		}
	}
	c := sdk.WrapSDKContext(ctx)
	first, err := k.Topics(c, &types.QueryTopicsRequest{OwnerAddress: q, Pagination: &query.PageRequest{Limit: 1}})
	vAssume(err == nil)
	key := first.Pagination.NextKey
	if len(key) == 0 {
		return
	}
	l := vNondetU64("limit")
	vAssume(l <= 3)
	rev := vNondetBool("reverse")
	_, _ = k.Topics(c, &types.QueryTopicsRequest{OwnerAddress: q, Pagination: &query.PageRequest{Key: key, Limit: l, Reverse: rev}})
	if rev {
		vCover("topics asked backwards from a held key")
	} else {
		vCover("topics asked forwards from a held key")
	}
}

func vHarnessQueryWritersFromKey() {
	ctx, k := vEnvAol()
	q := vNondetAddr("qOwner")
	qa := vDec(q)
	qt := vNondetAtom("qTopic")
	vAssume(len(qt) <= 70)
	for i := 0; i < 3; i++ {
		wk := types.WriterCompositeKey{OwnerAddress: qa, TopicName: qt, WriterAddress: vDec(vNondetAddr("w"))}
		if vNondetBool("has") && !k.HasWriter(ctx, wk) {
			k.SetWriter(ctx, wk, types.Writer{})
		}
	}
	c := sdk.WrapSDKContext(ctx)
	first, err := k.Writers(c, &types.QueryWritersRequest{OwnerAddress: q, TopicName: qt, Pagination: &query.PageRequest{Limit: 1}})
	vAssume(err == nil)
	key := first.Pagination.NextKey
	if len(key) == 0 {
		return
	}
	l := vNondetU64("limit")
	vAssume(l <= 3)
	rev := vNondetBool("reverse")
	_, _ = k.Writers(c, &types.QueryWritersRequest{OwnerAddress: q, TopicName: qt, Pagination: &query.PageRequest{Key: key, Limit: l, Reverse: rev}})
	if rev {
		vCover("writers asked backwards from a held key")
	} else {
		vCover("writers asked forwards from a held key")
	}
}

package __PKG__

import (
	"github.com/cosmos/cosmos-sdk/types/query"
	sdk "github.com/cosmos/cosmos-sdk/types"
	"github.com/medibloc/panacea-core/v2/x/aol/types"
)

// C13 listings: Query/Topics(owner) and Query/Writers(owner, topic) return
// exactly the matching entries of a store with up to vListN entries at
// arbitrary keys.

func vHarnessTopicsListing() {
	ctx, k := vEnvAol()
	q := vNondetAddr("qOwner")
	qa := vDec(q)
	var owners [vListN]sdk.AccAddress
	var names [vListN]string
	var present [vListN]bool
	for i := 0; i < vListN; i++ {
		owners[i] = vDec(vNondetAddr("o"))
		names[i] = vNondetAtom("t")
		vAssume(len(names[i]) <= 255)
		for j := 0; j < i; j++ {
			vAssume(!vAll(vBytesEqual(owners[i], owners[j]), names[i] == names[j]))
		}
		present[i] = vNondetBool("has")
		if present[i] {
			k.SetTopic(ctx, types.TopicCompositeKey{OwnerAddress: owners[i], TopicName: names[i]}, types.Topic{TotalRecords: vNondetU64("tr"), Description: vNondetAtom("d")})
		}
	}
	res, err := k.Topics(sdk.WrapSDKContext(ctx), &types.QueryTopicsRequest{OwnerAddress: q})
	vCheck(err == nil, "C13: Topics query succeeds for a valid owner")
	if err != nil {
		return
	}
	vCover("topics listed")
	cnt := 0
	for i := 0; i < vListN; i++ {
		if vAll(present[i], vBytesEqual(owners[i], qa)) {
			cnt++
			found := false
			for _, n := range res.TopicNames {
				if n == names[i] {
					found = true
				}
			}
			vCheck(found, "C13: every topic of the owner is listed")
		}
	}
	vCheck(len(res.TopicNames) == cnt, "C13: the listing has exactly as many items as the owner has topics (no item of another owner, none twice)")
	if cnt >= 2 {
		vCover("two topics of one owner listed")
	}
}

func vHarnessWritersListing() {
	ctx, k := vEnvAol()
	q := vNondetAddr("qOwner")
	qa := vDec(q)
	qt := vNondetAtom("qTopic")
	var owners, writers [vListN]sdk.AccAddress
	var names [vListN]string
	var present [vListN]bool
	for i := 0; i < vListN; i++ {
		owners[i] = vDec(vNondetAddr("o"))
		writers[i] = vDec(vNondetAddr("w"))
		names[i] = vNondetAtom("t")
		vAssume(len(names[i]) <= 255)
		for j := 0; j < i; j++ {
			vAssume(!vAll(vBytesEqual(owners[i], owners[j]), names[i] == names[j], vBytesEqual(writers[i], writers[j])))
		}
		present[i] = vNondetBool("has")
		if present[i] {
			k.SetWriter(ctx, types.WriterCompositeKey{OwnerAddress: owners[i], TopicName: names[i], WriterAddress: writers[i]}, types.Writer{Moniker: vNondetAtom("m"), NanoTimestamp: vNondetI64("ts")})
		}
	}
	res, err := k.Writers(sdk.WrapSDKContext(ctx), &types.QueryWritersRequest{OwnerAddress: q, TopicName: qt})
	if err != nil {
		vCover("writers query rejected")
		vCheck(len(qt) > 255, "C13: Writers query fails only for an unencodable topic name")
		return
	}
	vCover("writers listed")
	cnt := 0
	for i := 0; i < vListN; i++ {
		if vAll(present[i], vBytesEqual(owners[i], qa), names[i] == qt) {
			cnt++
			found := false
			for _, w := range res.WriterAddresses {
				if w == writers[i].String() {
					found = true
				}
			}
			vCheck(found, "C13: every writer of the topic is listed")
		}
	}
	vCheck(len(res.WriterAddresses) == cnt, "C13: the listing has exactly as many items as the topic has writers (no cross-talk, none twice)")
}

// C13 paging: a page requested with any offset / limit / count_total / direction is exactly
// the corresponding slice of the complete listing (the SDK pagination code is executed).
func vPage(site string) *query.PageRequest {
	o, l := vNondetU64(site+".offset"), vNondetU64(site+".limit")
	vAssume(o <= 3 && l >= 1 && l <= 3)
	return &query.PageRequest{Offset: o, Limit: l, CountTotal: vNondetBool(site + ".countTotal"), Reverse: vNondetBool(site + ".reverse")}
}

func vHarnessTopicsPaging() {
	ctx, k := vEnvAol()
	q := vNondetAddr("qOwner")
	qa := vDec(q)
	n := 0
	for i := 0; i < vListN; i++ {
		name := vNondetAtom("t")
		vAssume(len(name) <= 255)
		if vNondetBool("has") {
			tk := types.TopicCompositeKey{OwnerAddress: qa, TopicName: name}
			vAssume(!k.HasTopic(ctx, tk))
			k.SetTopic(ctx, tk, types.Topic{TotalRecords: vNondetU64("tr")})
			n++
		}
	}
	full, err := k.Topics(sdk.WrapSDKContext(ctx), &types.QueryTopicsRequest{OwnerAddress: q})
	vAssume(err == nil)
	vCheck(len(full.TopicNames) == n, "C13: the unpaginated listing has every topic of the owner")
	pr := vPage("page")
	page, perr := k.Topics(sdk.WrapSDKContext(ctx), &types.QueryTopicsRequest{OwnerAddress: q, Pagination: pr})
	vCheck(perr == nil, "C13: a paged Topics query succeeds")
	if perr != nil {
		return
	}
	vCover("topics page answered")
	lo, hi := int(pr.Offset), int(pr.Offset+pr.Limit)
	if lo > n {
		lo = n
	}
	if hi > n {
		hi = n
	}
	vCheck(len(page.TopicNames) == hi-lo, "C13: a page has exactly min(limit, remaining) items (no item twice, none skipped)")
	if len(page.TopicNames) == hi-lo {
		for i := lo; i < hi; i++ {
			j := i
			if pr.Reverse {
				j = n - 1 - i
			}
			vCheck(page.TopicNames[i-lo] == full.TopicNames[j], "C13: page items are the corresponding slice of the complete listing (in the requested direction)")
		}
	}
	if pr.CountTotal {
		vCheck(page.Pagination.Total == uint64(n), "C13: count_total reports the number of topics")
	}
	if n >= 2 && hi-lo >= 1 && lo >= 1 {
		vCover("a later page of several topics")
	}
}

func vHarnessWritersPaging() {
	ctx, k := vEnvAol()
	q := vNondetAddr("qOwner")
	qa := vDec(q)
	qt := vNondetAtom("qTopic")
	vAssume(len(qt) <= 255)
	n := 0
	for i := 0; i < vListN; i++ {
		w := vDec(vNondetAddr("w"))
		if vNondetBool("has") {
			wk := types.WriterCompositeKey{OwnerAddress: qa, TopicName: qt, WriterAddress: w}
			vAssume(!k.HasWriter(ctx, wk))
			k.SetWriter(ctx, wk, types.Writer{Moniker: vNondetAtom("m")})
			n++
		}
	}
	full, err := k.Writers(sdk.WrapSDKContext(ctx), &types.QueryWritersRequest{OwnerAddress: q, TopicName: qt})
	vAssume(err == nil)
	vCheck(len(full.WriterAddresses) == n, "C13: the unpaginated listing has every writer of the topic")
	pr := vPage("page")
	page, perr := k.Writers(sdk.WrapSDKContext(ctx), &types.QueryWritersRequest{OwnerAddress: q, TopicName: qt, Pagination: pr})
	vCheck(perr == nil, "C13: a paged Writers query succeeds")
	if perr != nil {
		return
	}
	vCover("writers page answered")
	lo, hi := int(pr.Offset), int(pr.Offset+pr.Limit)
	if lo > n {
		lo = n
	}
	if hi > n {
		hi = n
	}
	vCheck(len(page.WriterAddresses) == hi-lo, "C13: a page has exactly min(limit, remaining) items (no item twice, none skipped)")
	if len(page.WriterAddresses) == hi-lo {
		for i := lo; i < hi; i++ {
			j := i
			if pr.Reverse {
				j = n - 1 - i
			}
			vCheck(page.WriterAddresses[i-lo] == full.WriterAddresses[j], "C13: page items are the corresponding slice of the complete listing (in the requested direction)")
		}
	}
}

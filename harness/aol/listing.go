package __PKG__

import (
	"github.com/cosmos/cosmos-sdk/types/query"
	sdk "github.com/cosmos/cosmos-sdk/types"
	"github.com/medibloc/panacea-core/v2/x/aol/types"
)

// C13 listings: Query/Topics(owner) and Query/Writers(owner, topic) return
// exactly the matching entries of a store with up to vListN entries at
// arbitrary keys.

func vHarnessTopicsListing() {
	ctx, k := vEnvAol()
	q := vNondetAddr("qOwner")
	qa := vDec(q)
	var owners [vListN]sdk.AccAddress
	var names [vListN]string
	var present [vListN]bool
	for i := 0; i < vListN; i++ {
		owners[i] = vDec(vNondetAddr("o"))
		names[i] = vNondetAtom("t")
		vAssume(len(names[i]) <= 255)
		for j := 0; j < i; j++ {
			vAssume(!vAll(vBytesEqual(owners[i], owners[j]), names[i] == names[j]))
		}
		present[i] = vNondetBool("has")
		if present[i] {
			k.SetTopic(ctx, types.TopicCompositeKey{OwnerAddress: owners[i], TopicName: names[i]}, types.Topic{TotalRecords: vNondetU64("tr"), Description: vNondetAtom("d")})
		}
	}
	res, err := k.Topics(sdk.WrapSDKContext(ctx), &types.QueryTopicsRequest{OwnerAddress: q})
	vCheck(err == nil, "C13: Topics query succeeds for a valid owner")
	if err != nil {
		return
	}
	vCover("topics listed")
	cnt := 0
	for i := 0; i < vListN; i++ {
		if vAll(present[i], vBytesEqual(owners[i], qa)) {
			cnt++
			found := false
			for _, n := range res.TopicNames {
				if n == names[i] {
					found = true
				}
			}
			vCheck(found, "C13: every topic of the owner is listed")
		}
	}
	vCheck(len(res.TopicNames) == cnt, "C13: the listing has exactly as many items as the owner has topics (no item of another owner, none twice)")
	if cnt >= 2 {
		vCover("two topics of one owner listed")
	}
}

func vHarnessWritersListing() {
	ctx, k := vEnvAol()
	q := vNondetAddr("qOwner")
	qa := vDec(q)
	qt := vNondetAtom("qTopic")
	var owners, writers [vListN]sdk.AccAddress
	var names [vListN]string
	var present [vListN]bool
	for i := 0; i < vListN; i++ {
		owners[i] = vDec(vNondetAddr("o"))
		writers[i] = vDec(vNondetAddr("w"))
		names[i] = vNondetAtom("t")
		vAssume(len(names[i]) <= 255)
		for j := 0; j < i; j++ {
			vAssume(!vAll(vBytesEqual(owners[i], owners[j]), names[i] == names[j], vBytesEqual(writers[i], writers[j])))
		}
		present[i] = vNondetBool("has")
		if present[i] {
			k.SetWriter(ctx, types.WriterCompositeKey{OwnerAddress: owners[i], TopicName: names[i], WriterAddress: writers[i]}, types.Writer{Moniker: vNondetAtom("m"), NanoTimestamp: vNondetI64("ts")})
		}
	}
	res, err := k.Writers(sdk.WrapSDKContext(ctx), &types.QueryWritersRequest{OwnerAddress: q, TopicName: qt})
	if err != nil {
		vCover("writers query rejected")
		vCheck(len(qt) > 255, "C13: Writers query fails only for an unencodable topic name")
		return
	}
	vCover("writers listed")
	cnt := 0
	for i := 0; i < vListN; i++ {
		if vAll(present[i], vBytesEqual(owners[i], qa), names[i] == qt) {
			cnt++
			found := false
			for _, w := range res.WriterAddresses {
				if w == writers[i].String() {
					found = true
				}
			}
			vCheck(found, "C13: every writer of the topic is listed")
		}
	}
	vCheck(len(res.WriterAddresses) == cnt, "C13: the listing has exactly as many items as the topic has writers (no cross-talk, none twice)")
}

// C13 paging: a page requested with any offset / limit / count_total / direction is exactly
// the corresponding slice of the complete listing (the SDK pagination code is executed).
func vPage(site string) *query.PageRequest {
	o, l := vNondetU64(site+".offset"), vNondetU64(site+".limit")
	// small page sizes, or the largest ones ("everything from here on": query.MaxLimit = 2^64-1)
	vAssume(vAll(o <= 3, l >= 1, vAny(l <= 3, l >= ^uint64(0)-3)))
	return &query.PageRequest{Offset: o, Limit: l, CountTotal: vNondetBool(site + ".countTotal"), Reverse: vNondetBool(site + ".reverse")}
}

func vHarnessTopicsPaging() {
	ctx, k := vEnvAol()
	q := vNondetAddr("qOwner")
	qa := vDec(q)
	n := 0
	for i := 0; i < vListN; i++ {
		name := vNondetAtom("t")
		vAssume(len(name) <= 255)
		if vNondetBool("has") {
			tk := types.TopicCompositeKey{OwnerAddress: qa, TopicName: name}
			vAssume(!k.HasTopic(ctx, tk))
			k.SetTopic(ctx, tk, types.Topic{TotalRecords: vNondetU64("tr")})
			n++
		}
	}
	full, err := k.Topics(sdk.WrapSDKContext(ctx), &types.QueryTopicsRequest{OwnerAddress: q})
	vAssume(err == nil)
	vCheck(len(full.TopicNames) == n, "C13: the unpaginated listing has every topic of the owner")
	pr := vPage("page")
	page, perr := k.Topics(sdk.WrapSDKContext(ctx), &types.QueryTopicsRequest{OwnerAddress: q, Pagination: pr})
	vCheck(perr == nil, "C13: a paged Topics query succeeds")
	if perr != nil {
		return
	}
	vCover("topics page answered")
	lo, hi := int(pr.Offset), n
	overflow := pr.Offset+pr.Limit < pr.Offset // offset+limit does not fit in 64 bits: the page is "all the rest"
	if !overflow && pr.Offset+pr.Limit < uint64(n) {
		hi = int(pr.Offset + pr.Limit)
	}
	if lo > n {
		lo = n
	}
	if overflow {
		vCheck(len(page.TopicNames) == hi-lo, "C13: a page whose offset+limit exceeds 2^64-1 has exactly the remaining items")
	} else {
		vCheck(len(page.TopicNames) == hi-lo, "C13: a page has exactly min(limit, remaining) items (no item twice, none skipped)")
	}
	if len(page.TopicNames) == hi-lo {
		for i := lo; i < hi; i++ {
			j := i
			if pr.Reverse {
				j = n - 1 - i
			}
			vCheck(page.TopicNames[i-lo] == full.TopicNames[j], "C13: page items are the corresponding slice of the complete listing (in the requested direction)")
		}
	}
	if pr.CountTotal {
		vCheck(page.Pagination.Total == uint64(n), "C13: count_total reports the number of topics")
	}
	if n >= 2 && hi-lo >= 1 && lo >= 1 {
		vCover("a later page of several topics")
	}
}

func vHarnessWritersPaging() {
	ctx, k := vEnvAol()
	q := vNondetAddr("qOwner")
	qa := vDec(q)
	qt := vNondetAtom("qTopic")
	vAssume(len(qt) <= 255)
	n := 0
	for i := 0; i < vListN; i++ {
		w := vDec(vNondetAddr("w"))
		if vNondetBool("has") {
			wk := types.WriterCompositeKey{OwnerAddress: qa, TopicName: qt, WriterAddress: w}
			vAssume(!k.HasWriter(ctx, wk))
			k.SetWriter(ctx, wk, types.Writer{Moniker: vNondetAtom("m")})
			n++
		}
	}
	full, err := k.Writers(sdk.WrapSDKContext(ctx), &types.QueryWritersRequest{OwnerAddress: q, TopicName: qt})
	vAssume(err == nil)
	vCheck(len(full.WriterAddresses) == n, "C13: the unpaginated listing has every writer of the topic")
	pr := vPage("page")
	page, perr := k.Writers(sdk.WrapSDKContext(ctx), &types.QueryWritersRequest{OwnerAddress: q, TopicName: qt, Pagination: pr})
	vCheck(perr == nil, "C13: a paged Writers query succeeds")
	if perr != nil {
		return
	}
	vCover("writers page answered")
	lo, hi := int(pr.Offset), n
	overflow := pr.Offset+pr.Limit < pr.Offset // offset+limit does not fit in 64 bits: the page is "all the rest"
	if !overflow && pr.Offset+pr.Limit < uint64(n) {
		hi = int(pr.Offset + pr.Limit)
	}
	if lo > n {
		lo = n
	}
	if overflow {
		vCheck(len(page.WriterAddresses) == hi-lo, "C13: a page whose offset+limit exceeds 2^64-1 has exactly the remaining items")
	} else {
		vCheck(len(page.WriterAddresses) == hi-lo, "C13: a page has exactly min(limit, remaining) items (no item twice, none skipped)")
	}
	if len(page.WriterAddresses) == hi-lo {
		for i := lo; i < hi; i++ {
			j := i
			if pr.Reverse {
				j = n - 1 - i
			}
			vCheck(page.WriterAddresses[i-lo] == full.WriterAddresses[j], "C13: page items are the corresponding slice of the complete listing (in the requested direction)")
		}
	}
}

// C13 key-based paging: walking a listing page by page through next_key (any page size, either
// direction) yields every item exactly once, in the order of the complete listing.
func vHarnessTopicsKeyPaging() {
	ctx, k := vEnvAol()
	q := vNondetAddr("qOwner")
	qa := vDec(q)
	n := 0
	for i := 0; i < vListN; i++ {
		name := vNondetAtom("t")
		vAssume(len(name) <= 255)
		if vNondetBool("has") {
			tk := types.TopicCompositeKey{OwnerAddress: qa, TopicName: name}
			vAssume(!k.HasTopic(ctx, tk))
			k.SetTopic(ctx, tk, types.Topic{TotalRecords: vNondetU64("tr")})
			n++
		}
	}
	// an entry of another owner must never show up on any page
	if vNondetBool("otherOwner") {
		oa := vDec(vNondetAddr("other"))
		on := vNondetAtom("otherTopic")
		vAssume(len(on) <= 255)
		otk := types.TopicCompositeKey{OwnerAddress: oa, TopicName: on}
		if !k.HasTopic(ctx, otk) {
			k.SetTopic(ctx, otk, types.Topic{})
			if !vBytesEqual(oa, qa) {
				vCover("a topic of another owner exists")
			} else {
				n++
			}
		}
	}
	c := sdk.WrapSDKContext(ctx)
	full, err := k.Topics(c, &types.QueryTopicsRequest{OwnerAddress: q})
	vAssume(err == nil)
	rev := vNondetBool("reverse")
	var got []string
	var key []byte
	pages := 0
	for {
		// every page may ask for a different size: any value from 1 to 2^64-1
		l := vNondetU64("limit")
		vAssume(l >= 1)
		page, perr := k.Topics(c, &types.QueryTopicsRequest{OwnerAddress: q, Pagination: &query.PageRequest{Key: key, Limit: l, Reverse: rev}})
		vCheck(perr == nil, "C13: a key-paged Topics query succeeds")
		if perr != nil {
			return
		}
		pages++
		vCheck(uint64(len(page.TopicNames)) <= l, "C13: a page is never larger than the limit")
		got = append(got, page.TopicNames...)
		key = page.Pagination.NextKey
		if len(key) == 0 {
			break
		}
		vCheck(uint64(len(page.TopicNames)) == l, "C13: a page that is followed by another page is full")
		if pages > vListN+1 {
			vCheck(false, "C13: walking by next_key terminates")
			return
		}
	}
	vCover("topics walked by key")
	vCheck(len(got) == n, "C13: walking all pages by next_key yields every topic of the owner exactly once")
	if len(got) == n && len(full.TopicNames) == n {
		for i := range got {
			j := i
			if rev {
				j = n - 1 - i
			}
			vCheck(got[i] == full.TopicNames[j], "C13: pages walked by next_key are consecutive slices of the complete listing")
		}
	}
	if pages >= 2 {
		vCover("at least two pages walked by key")
	}
}

func vHarnessWritersKeyPaging() {
	ctx, k := vEnvAol()
	q := vNondetAddr("qOwner")
	qa := vDec(q)
	qt := vNondetAtom("qTopic")
	vAssume(len(qt) <= 255)
	n := 0
	for i := 0; i < vListN; i++ {
		w := vDec(vNondetAddr("w"))
		if vNondetBool("has") {
			wk := types.WriterCompositeKey{OwnerAddress: qa, TopicName: qt, WriterAddress: w}
			vAssume(!k.HasWriter(ctx, wk))
			k.SetWriter(ctx, wk, types.Writer{Moniker: vNondetAtom("m")})
			n++
		}
	}
	// a writer of a topic whose name extends the queried one must never show up
	if vNondetBool("otherTopic") {
		ot := vNondetAtom("otherTopicName")
		vAssume(len(ot) <= 255 && ot != qt)
		owk := types.WriterCompositeKey{OwnerAddress: qa, TopicName: ot, WriterAddress: vDec(vNondetAddr("ow"))}
		if !k.HasWriter(ctx, owk) {
			k.SetWriter(ctx, owk, types.Writer{})
			vCover("a writer of another topic exists")
		}
	}
	c := sdk.WrapSDKContext(ctx)
	full, err := k.Writers(c, &types.QueryWritersRequest{OwnerAddress: q, TopicName: qt})
	vAssume(err == nil)
	rev := vNondetBool("reverse")
	var got []string
	var key []byte
	pages := 0
	for {
		// every page may ask for a different size: any value from 1 to 2^64-1
		l := vNondetU64("limit")
		vAssume(l >= 1)
		page, perr := k.Writers(c, &types.QueryWritersRequest{OwnerAddress: q, TopicName: qt, Pagination: &query.PageRequest{Key: key, Limit: l, Reverse: rev}})
		vCheck(perr == nil, "C13: a key-paged Writers query succeeds")
		if perr != nil {
			return
		}
		pages++
		vCheck(uint64(len(page.WriterAddresses)) <= l, "C13: a page is never larger than the limit")
		got = append(got, page.WriterAddresses...)
		key = page.Pagination.NextKey
		if len(key) == 0 {
			break
		}
		vCheck(uint64(len(page.WriterAddresses)) == l, "C13: a page that is followed by another page is full")
		if pages > vListN+1 {
			vCheck(false, "C13: walking by next_key terminates")
			return
		}
	}
	vCover("writers walked by key")
	vCheck(len(got) == n, "C13: walking all pages by next_key yields every writer of the topic exactly once")
	if len(got) == n && len(full.WriterAddresses) == n {
		for i := range got {
			j := i
			if rev {
				j = n - 1 - i
			}
			vCheck(got[i] == full.WriterAddresses[j], "C13: pages walked by next_key are consecutive slices of the complete listing")
		}
	}
	if pages >= 2 {
		vCover("at least two writer pages walked by key")
	}
}

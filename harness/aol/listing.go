package __PKG__

import (
	sdk "github.com/cosmos/cosmos-sdk/types"
	"github.com/medibloc/panacea-core/v2/x/aol/types"
)

// C13 listings: Query/Topics(owner) and Query/Writers(owner, topic) return
// exactly the matching entries of a store with up to vListN entries at
// arbitrary keys.

func vHarnessTopicsListing() {
	ctx, k := vEnvAol()
	q := vNondetAddr("qOwner")
	qa := vDec(q)
	var owners [vListN]sdk.AccAddress
	var names [vListN]string
	var present [vListN]bool
	for i := 0; i < vListN; i++ {
		owners[i] = vDec(vNondetAddr("o"))
		names[i] = vNondetAtom("t")
		vAssume(len(names[i]) <= 255)
		for j := 0; j < i; j++ {
			vAssume(!vAll(vBytesEqual(owners[i], owners[j]), names[i] == names[j]))
		}
		present[i] = vNondetBool("has")
		if present[i] {
			k.SetTopic(ctx, types.TopicCompositeKey{OwnerAddress: owners[i], TopicName: names[i]}, types.Topic{TotalRecords: vNondetU64("tr"), Description: vNondetAtom("d")})
		}
	}
	res, err := k.Topics(sdk.WrapSDKContext(ctx), &types.QueryTopicsRequest{OwnerAddress: q})
	vCheck(err == nil, "C13: Topics query succeeds for a valid owner")
	if err != nil {
		return
	}
	vCover("topics listed")
	cnt := 0
	for i := 0; i < vListN; i++ {
		if vAll(present[i], vBytesEqual(owners[i], qa)) {
			cnt++
			found := false
			for _, n := range res.TopicNames {
				if n == names[i] {
					found = true
				}
			}
			vCheck(found, "C13: every topic of the owner is listed")
		}
	}
	vCheck(len(res.TopicNames) == cnt, "C13: the listing has exactly as many items as the owner has topics (no item of another owner, none twice)")
	if cnt >= 2 {
		vCover("two topics of one owner listed")
	}
}

func vHarnessWritersListing() {
	ctx, k := vEnvAol()
	q := vNondetAddr("qOwner")
	qa := vDec(q)
	qt := vNondetAtom("qTopic")
	var owners, writers [vListN]sdk.AccAddress
	var names [vListN]string
	var present [vListN]bool
	for i := 0; i < vListN; i++ {
		owners[i] = vDec(vNondetAddr("o"))
		writers[i] = vDec(vNondetAddr("w"))
		names[i] = vNondetAtom("t")
		vAssume(len(names[i]) <= 255)
		for j := 0; j < i; j++ {
			vAssume(!vAll(vBytesEqual(owners[i], owners[j]), names[i] == names[j], vBytesEqual(writers[i], writers[j])))
		}
		present[i] = vNondetBool("has")
		if present[i] {
			k.SetWriter(ctx, types.WriterCompositeKey{OwnerAddress: owners[i], TopicName: names[i], WriterAddress: writers[i]}, types.Writer{Moniker: vNondetAtom("m"), NanoTimestamp: vNondetI64("ts")})
		}
	}
	res, err := k.Writers(sdk.WrapSDKContext(ctx), &types.QueryWritersRequest{OwnerAddress: q, TopicName: qt})
	if err != nil {
		vCover("writers query rejected")
		vCheck(len(qt) > 255, "C13: Writers query fails only for an unencodable topic name")
		return
	}
	vCover("writers listed")
	cnt := 0
	for i := 0; i < vListN; i++ {
		if vAll(present[i], vBytesEqual(owners[i], qa), names[i] == qt) {
			cnt++
			found := false
			for _, w := range res.WriterAddresses {
				if w == writers[i].String() {
					found = true
				}
			}
			vCheck(found, "C13: every writer of the topic is listed")
		}
	}
	vCheck(len(res.WriterAddresses) == cnt, "C13: the listing has exactly as many items as the topic has writers (no cross-talk, none twice)")
}

package __PKG__

import (
	sdk "github.com/cosmos/cosmos-sdk/types"
	"github.com/medibloc/panacea-core/v2/x/aol/types"
)

// One-step inductive harnesses for the four AOL handlers (C01, C02, C13).
// Pre-state: arbitrary entries at every key the handler can touch plus one
// witness record / writer / topic at an arbitrary key, constrained by Inv_AOL.

func vDec(addr string) sdk.AccAddress {
	a, err := sdk.AccAddressFromBech32(addr)
	vAssume(err == nil)
	return a
}

const (
	vModeRecord = 0 // witness record at an arbitrary key
	vModeOthers = 1 // witness writer and witness topic at arbitrary other keys
)

type vPre struct {
	mode int
	owner, writer sdk.AccAddress
	topicKey      types.TopicCompositeKey
	ownerKey      types.OwnerCompositeKey
	writerKey     types.WriterCompositeKey
	hasTopic      bool
	topic         types.Topic
	hasOwner      bool
	ownerRec      types.Owner
	hasWriter     bool
	writerRec     types.Writer
	// witnesses at arbitrary keys
	wk      types.RecordCompositeKey
	hasW    bool
	wrec    types.Record
	sameTop bool
	xk      types.WriterCompositeKey // witness writer
	hasX    bool
	xrec    types.Writer
	tk      types.TopicCompositeKey // witness topic
	hasT    bool
	trec    types.Topic
}

func vNondetRecord(site string) types.Record {
	return types.Record{Key: vNondetBytes(site+".key", 70), Value: vNondetBytes(site+".value", 5000), NanoTimestamp: vNondetI64(site + ".ts"), WriterAddress: vNondetAddr(site + ".writer")}
}

func vSetup(ctx sdk.Context, k Keeper, ownerAddr, topicName, writerAddr string, mode int) *vPre {
	p := &vPre{mode: mode}
	p.owner = vDec(ownerAddr)
	p.writer = vDec(writerAddr)
	p.ownerKey = types.OwnerCompositeKey{OwnerAddress: p.owner}
	p.topicKey = types.TopicCompositeKey{OwnerAddress: p.owner, TopicName: topicName}
	p.writerKey = types.WriterCompositeKey{OwnerAddress: p.owner, TopicName: topicName, WriterAddress: p.writer}
	p.hasTopic = vNondetBool("hasTopic")
	if p.hasTopic {
		p.topic = types.Topic{TotalRecords: vNondetU64("totalRecords"), TotalWriters: vNondetU64("totalWriters"), Description: vNondetAtom("topicDesc")}
		k.SetTopic(ctx, p.topicKey, p.topic)
	}
	p.hasOwner = vNondetBool("hasOwner")
	if p.hasOwner {
		p.ownerRec = types.Owner{TotalTopics: vNondetU64("totalTopics")}
		k.SetOwner(ctx, p.ownerKey, p.ownerRec)
	}
	p.hasWriter = vNondetBool("hasWriter")
	if p.hasWriter {
		p.writerRec = types.Writer{Moniker: vNondetAtom("wMoniker"), Description: vNondetAtom("wDesc"), NanoTimestamp: vNondetI64("wTs")}
		k.SetWriter(ctx, p.writerKey, p.writerRec)
	}
	if mode == vModeRecord {
		// witness record at an arbitrary key
		p.wk = types.RecordCompositeKey{OwnerAddress: vDec(vNondetAddr("wOwner")), TopicName: vNondetAtom("wTopic"), Offset: vNondetU64("wOffset")}
		vAssume(len(p.wk.TopicName) <= 255)
		p.hasW = vNondetBool("hasWitness")
		if p.hasW {
			p.wrec = vNondetRecord("wrec")
			k.SetRecord(ctx, p.wk, p.wrec)
		}
		p.sameTop = vAll(vBytesEqual(p.wk.OwnerAddress, p.owner), p.wk.TopicName == topicName)
		// Inv_AOL at the witness: a record (o,t,i) exists iff topic (o,t) exists and i < total_records
		if p.sameTop {
			vAssume(p.hasW == vAll(p.hasTopic, p.wk.Offset < p.topic.TotalRecords))
		}
	} else {
		// witness writer at an arbitrary key other than the message's writer key
		p.xk = types.WriterCompositeKey{OwnerAddress: vDec(vNondetAddr("xOwner")), TopicName: vNondetAtom("xTopic"), WriterAddress: vDec(vNondetAddr("xWriter"))}
		vAssume(len(p.xk.TopicName) <= 255)
		vAssume(!vAll(vBytesEqual(p.xk.OwnerAddress, p.owner), p.xk.TopicName == topicName, vBytesEqual(p.xk.WriterAddress, p.writer)))
		p.hasX = vNondetBool("hasX")
		if p.hasX {
			p.xrec = types.Writer{Moniker: vNondetAtom("xMoniker"), Description: vNondetAtom("xDesc"), NanoTimestamp: vNondetI64("xTs")}
			k.SetWriter(ctx, p.xk, p.xrec)
		}
		// witness topic at an arbitrary key other than the message's topic key
		p.tk = types.TopicCompositeKey{OwnerAddress: vDec(vNondetAddr("tOwner")), TopicName: vNondetAtom("tTopic")}
		vAssume(len(p.tk.TopicName) <= 255)
		vAssume(!vAll(vBytesEqual(p.tk.OwnerAddress, p.owner), p.tk.TopicName == topicName))
		p.hasT = vNondetBool("hasT")
		if p.hasT {
			p.trec = types.Topic{TotalRecords: vNondetU64("tRecords"), TotalWriters: vNondetU64("tWriters"), Description: vNondetAtom("tDesc")}
			k.SetTopic(ctx, p.tk, p.trec)
		}
	}
	return p
}

func vRecordSame(a, b types.Record, label string) {
	vCheck(vBytesEqual(a.Key, b.Key), label+": key")
	vCheck(vBytesEqual(a.Value, b.Value), label+": value")
	vCheck(a.NanoTimestamp == b.NanoTimestamp, label+": timestamp")
	vCheck(a.WriterAddress == b.WriterAddress, label+": writer")
}

// witness record untouched unless it is exactly the appended one (C01.1)
func vWitnessAfter(ctx sdk.Context, k Keeper, p *vPre, appended bool, newOffset uint64) {
	if p.mode != vModeRecord {
		return
	}
	has := k.HasRecord(ctx, p.wk)
	if p.hasW {
		vCheck(has, "C01: an existing record is never deleted")
		if has {
			vRecordSame(k.GetRecord(ctx, p.wk), p.wrec, "C01: an existing record is immutable")
		}
	} else if has {
		vCheck(vAll(appended, p.sameTop, p.wk.Offset == newOffset), "C01: no record appears except the one appended by this call")
	}
}

// every other topic and writer entry is untouched by any handler (C02, C13)
func vOthersAfter(ctx sdk.Context, k Keeper, p *vPre) {
	if p.mode != vModeOthers {
		return
	}
	vCheck(k.HasWriter(ctx, p.xk) == p.hasX, "C02/C13: no other writer entry appears or disappears")
	if p.hasX {
		xw := k.GetWriter(ctx, p.xk)
		vCheck(vAll(xw.Moniker == p.xrec.Moniker, xw.Description == p.xrec.Description, xw.NanoTimestamp == p.xrec.NanoTimestamp), "C02: other writer entries unchanged")
	}
	vCheck(k.HasTopic(ctx, p.tk) == p.hasT, "C02/C13: no other topic appears or disappears")
	if p.hasT {
		tt := k.GetTopic(ctx, p.tk)
		vCheck(vAll(tt.TotalRecords == p.trec.TotalRecords, tt.TotalWriters == p.trec.TotalWriters, tt.Description == p.trec.Description), "C13: other topics' counters unchanged")
	}
}

func vHarnessAddRecordStep()   { vAddRecordStep(vModeRecord) }
func vHarnessAddRecordOthers() { vAddRecordStep(vModeOthers) }

func vAddRecordStep(mode int) {
	ctx, k := vEnvAol()
	fee := ""
	if vNondetBool("withFeePayer") {
		fee = vNondetAddr("feePayer")
	}
	msg := &types.MsgAddRecordRequest{
		TopicName: vNondetAtom("topic"), Key: vNondetBytes("key", 6000), Value: vNondetBytes("value", 6000),
		WriterAddress: vNondetAddr("writer"), OwnerAddress: vNondetAddr("owner"), FeePayerAddress: fee,
	}
	vAssume(msg.ValidateBasic() == nil) // BASEAPP-VALIDATE
	p := vSetup(ctx, k, msg.OwnerAddress, msg.TopicName, msg.WriterAddress, mode)
	if p.hasTopic {
		vAssume(p.topic.TotalRecords < ^uint64(0)) // stated bound: no history reaches 2^64-1 appends
	}
	resp, err := msgServer{k}.AddRecord(sdk.WrapSDKContext(ctx), msg)
	if err != nil {
		vCover("AddRecord rejected")
		return // rolled back by baseapp (BASEAPP-ATOMIC); nothing asserted
	}
	vCover("AddRecord success")
	// C02.1 authorization
	vCheck(p.hasTopic, "C02: append only to an existing topic")
	vCheck(p.hasWriter, "C02: append only by an address currently in the topic's writer list")
	signers := msg.GetSigners()
	if fee != "" {
		vCheck(vAll(len(signers) == 2, vBytesEqual(signers[1], p.writer), vBytesEqual(signers[0], vDec(fee))), "C02/C15: signers are [fee payer, writer]")
	} else {
		vCheck(vAll(len(signers) == 1, vBytesEqual(signers[0], p.writer)), "C02: the writer must sign")
	}
	// C01.2 dense numbering and stored content
	vCheck(resp.Offset == p.topic.TotalRecords, "C01: reported offset equals the number of records before the append")
	vCheck(vAll(resp.OwnerAddress == msg.OwnerAddress, resp.TopicName == msg.TopicName), "C01: response names the topic")
	nk := types.RecordCompositeKey{OwnerAddress: p.owner, TopicName: msg.TopicName, Offset: resp.Offset}
	vCheck(k.HasRecord(ctx, nk), "C01: appended record is stored at the reported offset")
	want := types.Record{Key: msg.Key, Value: msg.Value, NanoTimestamp: ctx.BlockTime().UnixNano(), WriterAddress: msg.WriterAddress}
	vRecordSame(k.GetRecord(ctx, nk), want, "C01: stored record is exactly the submitted key/value/writer and block time")
	q, qerr := k.Record(sdk.WrapSDKContext(ctx), &types.QueryRecordRequest{OwnerAddress: msg.OwnerAddress, TopicName: msg.TopicName, Offset: resp.Offset})
	vCheck(qerr == nil, "C01: query for the acknowledged record succeeds")
	if qerr == nil {
		vRecordSame(*q.Record, want, "C01: query returns the acknowledged record")
	}
	after := k.GetTopic(ctx, p.topicKey)
	vCheck(after.TotalRecords == p.topic.TotalRecords+1, "C01/C13: record counter advanced by exactly one")
	vCheck(vAll(after.TotalWriters == p.topic.TotalWriters, after.Description == p.topic.Description), "C13: other topic fields unchanged by an append")
	vWitnessAfter(ctx, k, p, true, resp.Offset)
	// Inv_AOL afterwards at the witness
	if p.mode == vModeRecord && p.sameTop {
		vCheck(k.HasRecord(ctx, p.wk) == (p.wk.Offset < after.TotalRecords), "C01: Inv_AOL preserved (record exists iff offset < total_records)")
	}
	// writer list untouched
	vCheck(k.HasWriter(ctx, p.writerKey), "C02: append does not change the writer list")
	vCheck(k.HasOwner(ctx, p.ownerKey) == p.hasOwner, "C13: append does not touch the owner entry")
	vOthersAfter(ctx, k, p)
}

func vHarnessCreateTopicStep()   { vCreateTopicStep(vModeRecord) }
func vHarnessCreateTopicOthers() { vCreateTopicStep(vModeOthers) }

func vCreateTopicStep(mode int) {
	ctx, k := vEnvAol()
	msg := &types.MsgCreateTopicRequest{TopicName: vNondetAtom("topic"), Description: vNondetAtom("desc"), OwnerAddress: vNondetAddr("owner")}
	vAssume(msg.ValidateBasic() == nil)
	p := vSetup(ctx, k, msg.OwnerAddress, msg.TopicName, vNondetAddr("writer"), mode)
	// C13 invariant part: owner entry absent => it counts zero topics (GetOwner of a missing entry is the zero Owner)
	if p.hasOwner {
		vAssume(p.ownerRec.TotalTopics < ^uint64(0))
	}
	// Inv: writers/records exist only under an existing topic
	if !p.hasTopic {
		vAssume(!p.hasWriter)
	}
	_, err := msgServer{k}.CreateTopic(sdk.WrapSDKContext(ctx), msg)
	if err != nil {
		vCover("CreateTopic rejected")
		vCheck(p.hasTopic, "C02: CreateTopic is rejected only when the topic exists")
		return
	}
	vCover("CreateTopic success")
	vCheck(!p.hasTopic, "C01/C02: an existing topic is never re-created (its counters are not reset)")
	signers := msg.GetSigners()
	vCheck(vAll(len(signers) == 1, vBytesEqual(signers[0], p.owner)), "C02: a topic is created only under its signer's own address")
	t := k.GetTopic(ctx, p.topicKey)
	vCheck(k.HasTopic(ctx, p.topicKey), "C02: created topic exists")
	vCheck(vAll(t.TotalRecords == 0, t.TotalWriters == 0, t.Description == msg.Description), "C13: a new topic starts with zero records and writers")
	o := k.GetOwner(ctx, p.ownerKey)
	vCheck(o.TotalTopics == p.ownerRec.TotalTopics+1, "C13: owner's topic counter advanced by exactly one")
	vWitnessAfter(ctx, k, p, false, 0)
	vCheck(k.HasWriter(ctx, p.writerKey) == p.hasWriter, "C02: CreateTopic does not change any writer list")
	vOthersAfter(ctx, k, p)
}

func vHarnessAddWriterStep()   { vAddWriterStep(vModeRecord) }
func vHarnessAddWriterOthers() { vAddWriterStep(vModeOthers) }

func vAddWriterStep(mode int) {
	ctx, k := vEnvAol()
	msg := &types.MsgAddWriterRequest{TopicName: vNondetAtom("topic"), Moniker: vNondetAtom("moniker"), Description: vNondetAtom("desc"), WriterAddress: vNondetAddr("writer"), OwnerAddress: vNondetAddr("owner")}
	vAssume(msg.ValidateBasic() == nil)
	p := vSetup(ctx, k, msg.OwnerAddress, msg.TopicName, msg.WriterAddress, mode)
	if p.hasTopic {
		vAssume(p.topic.TotalWriters < ^uint64(0))
	}
	_, err := msgServer{k}.AddWriter(sdk.WrapSDKContext(ctx), msg)
	if err != nil {
		vCover("AddWriter rejected")
		return
	}
	vCover("AddWriter success")
	signers := msg.GetSigners()
	vCheck(vAll(len(signers) == 1, vBytesEqual(signers[0], p.owner)), "C02: the writer list changes only by a transaction signed by the topic owner")
	vCheck(p.hasTopic, "C02: writers are added only to an existing topic")
	vCheck(k.HasWriter(ctx, p.writerKey), "C02: added writer is listed")
	w := k.GetWriter(ctx, p.writerKey)
	vCheck(vAll(w.Moniker == msg.Moniker, w.Description == msg.Description, w.NanoTimestamp == ctx.BlockTime().UnixNano()), "C16: stored writer is what the message carried plus block time")
	t := k.GetTopic(ctx, p.topicKey)
	vCheck(vAll(t.TotalRecords == p.topic.TotalRecords, t.Description == p.topic.Description), "C13: AddWriter leaves record counter and description")
	vWitnessAfter(ctx, k, p, false, 0)
	vCheck(t.TotalWriters == p.topic.TotalWriters+1, "C13: writer counter advanced by exactly one for a new writer")
	vCheck(!p.hasWriter, "C13: adding a writer that is already listed is rejected (counter not double-counted)")
	vOthersAfter(ctx, k, p)
}

func vHarnessDeleteWriterStep()   { vDeleteWriterStep(vModeRecord) }
func vHarnessDeleteWriterOthers() { vDeleteWriterStep(vModeOthers) }

func vDeleteWriterStep(mode int) {
	ctx, k := vEnvAol()
	msg := &types.MsgDeleteWriterRequest{TopicName: vNondetAtom("topic"), WriterAddress: vNondetAddr("writer"), OwnerAddress: vNondetAddr("owner")}
	vAssume(msg.ValidateBasic() == nil)
	p := vSetup(ctx, k, msg.OwnerAddress, msg.TopicName, msg.WriterAddress, mode)
	// Inv: a writer entry exists only under an existing topic whose counter counts it
	if p.hasWriter {
		vAssume(vAll(p.hasTopic, p.topic.TotalWriters >= 1))
	}
	_, err := msgServer{k}.DeleteWriter(sdk.WrapSDKContext(ctx), msg)
	if err != nil {
		vCover("DeleteWriter rejected")
		return
	}
	vCover("DeleteWriter success")
	signers := msg.GetSigners()
	vCheck(vAll(len(signers) == 1, vBytesEqual(signers[0], p.owner)), "C02: the writer list changes only by a transaction signed by the topic owner")
	vCheck(p.hasWriter, "C02: only a listed writer can be removed")
	vCheck(!k.HasWriter(ctx, p.writerKey), "C02: removal takes effect immediately")
	t := k.GetTopic(ctx, p.topicKey)
	vCheck(vAll(t.TotalWriters == p.topic.TotalWriters-1, t.TotalWriters < p.topic.TotalWriters), "C13: writer counter decreased by exactly one, without wrapping")
	vCheck(vAll(t.TotalRecords == p.topic.TotalRecords, t.Description == p.topic.Description), "C13: DeleteWriter leaves record counter and description")
	vCheck(k.HasTopic(ctx, p.topicKey), "C01: the topic survives writer removal")
	vWitnessAfter(ctx, k, p, false, 0) // records survive writer removal
	vOthersAfter(ctx, k, p)
	// C02.3: with the entry gone an append by that address is rejected
	arMsg := &types.MsgAddRecordRequest{TopicName: msg.TopicName, Key: vNondetBytes("key", 70), Value: vNondetBytes("value", 5000), WriterAddress: msg.WriterAddress, OwnerAddress: msg.OwnerAddress}
	_, arErr := msgServer{k}.AddRecord(sdk.WrapSDKContext(ctx), arMsg)
	vCheck(arErr != nil, "C02: after removal no append by that address succeeds")
}

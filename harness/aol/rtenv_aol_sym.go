package __PKG__

import (
	sdk "github.com/cosmos/cosmos-sdk/types"
)

// vEnvAol: symbolic mode - intercepted by gosmt (context with symbolic block
// time, keeper over the finite symbolic store and the CODEC blob model).
func vEnvAol() (sdk.Context, Keeper) { return sdk.Context{}, Keeper{} }

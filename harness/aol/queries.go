package __PKG__

import (
	sdk "github.com/cosmos/cosmos-sdk/types"
	"github.com/medibloc/panacea-core/v2/x/aol/types"
)

// C17: AOL query handlers return a result or an error for every request.

func vQueryAddr(site string) string {
	if vNondetBool(site + ".valid") {
		return vNondetAddr(site)
	}
	j := vNondetAtom(site + ".junk")
	_, jerr := sdk.AccAddressFromBech32(j)
	vAssume(jerr != nil)
	return j
}

func vQueryState(ctx sdk.Context, k Keeper) {
	if vNondetBool("hasTopic") {
		tk := types.TopicCompositeKey{OwnerAddress: vDec(vNondetAddr("sOwner")), TopicName: vNondetAtom("sTopic")}
		vAssume(len(tk.TopicName) <= 70)
		k.SetTopic(ctx, tk, types.Topic{TotalRecords: vNondetU64("sTr"), TotalWriters: vNondetU64("sTw"), Description: vNondetAtom("sDesc")})
	}
}

func vHarnessQueryTopic() {
	ctx, k := vEnvAol()
	vQueryState(ctx, k)
	if vNondetBool("nilReq") {
		_, err := k.Topic(sdk.WrapSDKContext(ctx), nil)
		vCheck(err != nil, "C17: nil request is an error")
		return
	}
	_, err := k.Topic(sdk.WrapSDKContext(ctx), &types.QueryTopicRequest{OwnerAddress: vQueryAddr("owner"), TopicName: vNondetAtom("topic")})
	if err == nil {
		vCover("topic query answered")
	} else {
		vCover("topic query error")
	}
}

func vHarnessQueryTopics() {
	ctx, k := vEnvAol()
	vQueryState(ctx, k)
	if vNondetBool("nilReq") {
		_, err := k.Topics(sdk.WrapSDKContext(ctx), nil)
		vCheck(err != nil, "C17: nil request is an error")
		return
	}
	_, err := k.Topics(sdk.WrapSDKContext(ctx), &types.QueryTopicsRequest{OwnerAddress: vQueryAddr("owner")})
	if err == nil {
		vCover("topics query answered")
	}
}

func vHarnessQueryWriter() {
	ctx, k := vEnvAol()
	if vNondetBool("nilReq") {
		_, err := k.Writer(sdk.WrapSDKContext(ctx), nil)
		vCheck(err != nil, "C17: nil request is an error")
		return
	}
	_, err := k.Writer(sdk.WrapSDKContext(ctx), &types.QueryWriterRequest{OwnerAddress: vQueryAddr("owner"), TopicName: vNondetAtom("topic"), WriterAddress: vQueryAddr("writer")})
	if err != nil {
		vCover("writer query error")
	}
}

func vHarnessQueryWriters() {
	ctx, k := vEnvAol()
	if vNondetBool("nilReq") {
		_, err := k.Writers(sdk.WrapSDKContext(ctx), nil)
		vCheck(err != nil, "C17: nil request is an error")
		return
	}
	_, err := k.Writers(sdk.WrapSDKContext(ctx), &types.QueryWritersRequest{OwnerAddress: vQueryAddr("owner"), TopicName: vNondetAtom("topic")})
	if err == nil {
		vCover("writers query answered")
	}
}

func vHarnessQueryRecord() {
	ctx, k := vEnvAol()
	if vNondetBool("nilReq") {
		_, err := k.Record(sdk.WrapSDKContext(ctx), nil)
		vCheck(err != nil, "C17: nil request is an error")
		return
	}
	_, err := k.Record(sdk.WrapSDKContext(ctx), &types.QueryRecordRequest{OwnerAddress: vQueryAddr("owner"), TopicName: vNondetAtom("topic"), Offset: vNondetU64("offset")})
	if err != nil {
		vCover("record query error")
	}
}

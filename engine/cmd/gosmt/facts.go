package main

import (
	"encoding/json"
	"flag"
	"go/constant"
	"go/types"
	"os"
	"reflect"
	"sort"
	"strings"

	"golang.org/x/tools/go/ssa"

	"verif/engine/symex"
)

// gosmt facts: extracts, from the current source, what the sign-bytes model
// (C14) needs: message struct fields with their JSON names / omitempty flags,
// amino names registered on the codec that GetSignBytes actually uses, the
// callees of each GetSignBytes, and the proto type names.

type fieldFact struct {
	Go        string `json:"go"`
	JSON      string `json:"json"`
	OmitEmpty bool   `json:"omitempty"`
	Type      string `json:"type"`
	Kind      string `json:"kind"`
}

type msgFact struct {
	Pkg            string      `json:"pkg"`
	Name           string      `json:"name"`
	Fields         []fieldFact `json:"fields"`
	AminoName      string      `json:"amino_name_on_signing_codec"`
	AminoNameApp   string      `json:"amino_name_in_RegisterCodec"`
	SignBytesCalls []string    `json:"get_sign_bytes_calls"`
	ProtoName      string      `json:"proto_name"`
}

func cmdFacts(args []string) {
	fs := flag.NewFlagSet("facts", flag.ExitOnError)
	repo := fs.String("repo", "/repo", "repository root")
	out := fs.String("out", "", "output file")
	fs.Parse(args)
	pkgs := []string{"./x/aol/types", "./x/did/types", "./x/pnft/types"}
	prog, err := symex.Load(symex.LoadSpec{RepoDir: *repo, Patterns: pkgs})
	if err != nil {
		fatal(err)
	}
	var msgs []msgFact
	var paths []string
	for p := range prog.Pkgs {
		paths = append(paths, p)
	}
	sort.Strings(paths)
	for _, pp := range paths {
		pkg := prog.Pkgs[pp]
		// amino registrations: which names are registered by RegisterCodec, and is it ever applied to the global `amino`?
		regNames := map[string]string{} // type name -> amino name
		appliedToGlobal := false
		for _, m := range pkg.Members {
			fn, ok := m.(*ssa.Function)
			if !ok {
				continue
			}
			scanCalls(fn, func(c *ssa.CallCommon, in *ssa.Function) {
				callee := c.StaticCallee()
				if callee == nil {
					return
				}
				if callee.Name() == "RegisterConcrete" && len(c.Args) >= 3 {
					if k, ok := c.Args[2].(*ssa.Const); ok && k.Value != nil {
						tn := typeNameOf(c.Args[1])
						regNames[tn] = constant.StringVal(k.Value)
					}
				}
				// a call that passes the package-level amino codec to a registering function
				for _, a := range c.Args {
					if u, ok := a.(*ssa.UnOp); ok {
						if g, ok := u.X.(*ssa.Global); ok && g.Name() == "amino" && strings.Contains(callee.Name(), "Register") {
							appliedToGlobal = true
						}
					}
				}
			})
		}
		protoNames := map[string]string{}
		for _, m := range pkg.Members {
			fn, ok := m.(*ssa.Function)
			if !ok || !strings.HasPrefix(fn.Name(), "init") {
				continue
			}
			scanCalls(fn, func(c *ssa.CallCommon, in *ssa.Function) {
				callee := c.StaticCallee()
				if callee != nil && callee.Name() == "RegisterType" && len(c.Args) == 2 {
					if k, ok := c.Args[1].(*ssa.Const); ok && k.Value != nil {
						protoNames[typeNameOf(c.Args[0])] = constant.StringVal(k.Value)
					}
				}
			})
		}
		scope := pkg.Pkg.Scope()
		for _, name := range scope.Names() {
			if !strings.HasPrefix(name, "Msg") || !strings.HasSuffix(name, "Request") {
				continue
			}
			tn, ok := scope.Lookup(name).(*types.TypeName)
			if !ok {
				continue
			}
			st, ok := tn.Type().Underlying().(*types.Struct)
			if !ok {
				continue
			}
			mf := msgFact{Pkg: pp, Name: name, AminoNameApp: regNames[name], ProtoName: protoNames[name]}
			if appliedToGlobal {
				mf.AminoName = regNames[name]
			}
			for i := 0; i < st.NumFields(); i++ {
				f := st.Field(i)
				tag := reflect.StructTag(st.Tag(i)).Get("json")
				parts := strings.Split(tag, ",")
				jn := parts[0]
				if jn == "" {
					jn = f.Name()
				}
				if jn == "-" {
					continue
				}
				ff := fieldFact{Go: f.Name(), JSON: jn, Type: types.TypeString(f.Type(), nil)}
				for _, o := range parts[1:] {
					if o == "omitempty" {
						ff.OmitEmpty = true
					}
				}
				switch u := f.Type().Underlying().(type) {
				case *types.Basic:
					if u.Info()&types.IsString != 0 {
						ff.Kind = "string"
					} else if u.Info()&types.IsInteger != 0 {
						ff.Kind = "int"
					} else {
						ff.Kind = "other"
					}
				case *types.Slice:
					ff.Kind = "bytes"
				case *types.Pointer:
					ff.Kind = "message"
				default:
					ff.Kind = "other"
				}
				mf.Fields = append(mf.Fields, ff)
			}
			// GetSignBytes callees
			if fn := prog.Prog.LookupMethod(types.NewPointer(tn.Type()), pkg.Pkg, "GetSignBytes"); fn != nil {
				scanCalls(fn, func(c *ssa.CallCommon, in *ssa.Function) {
					if callee := c.StaticCallee(); callee != nil {
						mf.SignBytesCalls = append(mf.SignBytesCalls, callee.String())
					} else if c.IsInvoke() {
						mf.SignBytesCalls = append(mf.SignBytesCalls, "invoke "+c.Method.Name())
					}
				})
			}
			msgs = append(msgs, mf)
		}
	}
	b, _ := json.MarshalIndent(map[string]interface{}{"messages": msgs}, "", " ")
	if *out != "" {
		os.WriteFile(*out, b, 0o644)
	} else {
		os.Stdout.Write(b)
	}
}

func typeNameOf(v ssa.Value) string {
	t := v.Type()
	if mi, ok := v.(*ssa.MakeInterface); ok {
		t = mi.X.Type()
	}
	if p, ok := t.(*types.Pointer); ok {
		t = p.Elem()
	}
	if n, ok := t.(*types.Named); ok {
		return n.Obj().Name()
	}
	return t.String()
}

func scanCalls(fn *ssa.Function, f func(c *ssa.CallCommon, in *ssa.Function)) {
	for _, b := range fn.Blocks {
		for _, in := range b.Instrs {
			if c, ok := in.(ssa.CallInstruction); ok {
				f(c.Common(), fn)
			}
		}
	}
	for _, an := range fn.AnonFuncs {
		scanCalls(an, f)
	}
}

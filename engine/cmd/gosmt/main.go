package main

import (
	"encoding/json"
	"flag"
	"fmt"
	"os"
	"path/filepath"
	"regexp"
	"sort"
	"strings"
	"time"

	"verif/engine/smt"
	"verif/engine/symex"
)

// gosmt run: load a repo package with harness overlays and explore harness functions.
func main() {
	if len(os.Args) < 2 {
		fmt.Fprintln(os.Stderr, "usage: gosmt run ...")
		os.Exit(2)
	}
	switch os.Args[1] {
	case "run":
		cmdRun(os.Args[2:])
	case "facts":
		cmdFacts(os.Args[2:])
	default:
		fmt.Fprintln(os.Stderr, "unknown command")
		os.Exit(2)
	}
}

func cmdRun(args []string) {
	fs := flag.NewFlagSet("run", flag.ExitOnError)
	repo := fs.String("repo", "/repo", "repository root")
	pkgRel := fs.String("pkg", "", "package dir relative to repo (e.g. types/compkey)")
	files := fs.String("files", "", "comma-separated harness files to overlay into the package")
	match := fs.String("match", "", "regexp on harness function names")
	out := fs.String("out", "", "result JSON file")
	solver := fs.String("solver", "z3", "z3|z3-new|cvc5")
	timeout := fs.Int("timeout", 60, "per-query timeout (s)")
	unwind := fs.Int("unwind", 64, "max visits of a block per frame")
	workers := fs.Int("workers", 8, "parallel harnesses")
	logDir := fs.String("logdir", "", "directory for solver logs")
	fixedOrder := fs.Bool("fixed-order", false, "no permutation forks on store iteration")
	incremental := fs.Bool("incremental", false, "incremental solver sessions (push/pop)")
	summaries := fs.Bool("summaries", false, "use lemma summaries (compkey)")
	maxPaths := fs.Int("max-paths", 200000, "path cap per harness")
	forkstats := fs.Bool("forkstats", false, "print fork-site statistics")
	fs.Parse(args)
	if *forkstats {
		symex.EnableForkStats()
	}

	overlay := map[string][]byte{}
	pkgDir := filepath.Join(*repo, *pkgRel)
	for _, f := range strings.Split(*files, ",") {
		if f == "" {
			continue
		}
		b, err := os.ReadFile(f)
		if err != nil {
			fatal(err)
		}
		b = []byte(strings.Replace(string(b), "package __PKG__", "package "+pkgName(pkgDir), 1))
		base := filepath.Base(f)
		if strings.HasPrefix(base, "rt_") {
			base = "rt.go"
		}
		overlay[filepath.Join(pkgDir, "zz_verif_"+base)] = b
	}
	t0 := time.Now()
	prog, err := symex.Load(symex.LoadSpec{RepoDir: *repo, Patterns: []string{"./" + *pkgRel}, Overlay: overlay})
	if err != nil {
		fatal(err)
	}
	loadS := time.Since(t0).Seconds()
	var pkgPath string
	for p := range prog.Pkgs {
		pkgPath = p
	}
	var re *regexp.Regexp
	if *match != "" {
		re = regexp.MustCompile(*match)
	}
	cfg := symex.Config{MaxBlockVisits: *unwind, Solver: *solver, Timeout: time.Duration(*timeout) * time.Second, FixedIterOrder: *fixedOrder, Summaries: *summaries, Incremental: *incremental, MaxPaths: *maxPaths}
	if *logDir != "" {
		os.MkdirAll(*logDir, 0o755)
	}
	res, err := symex.RunAll(prog, pkgPath, re, cfg, *workers, *logDir)
	if err != nil {
		fatal(err)
	}
	doc := map[string]interface{}{
		"pkg": pkgPath, "load_s": loadS, "wall_s": time.Since(t0).Seconds(), "harnesses": res,
		"solver": *solver,
		"solver_stats": map[string]interface{}{
			"queries": smt.GStats.Queries, "sat": smt.GStats.Sat, "unsat": smt.GStats.Unsat,
			"unknown": smt.GStats.Unknown, "cache_hits": smt.GStats.CacheHits, "solver_time_s": float64(smt.GStats.NanosZ3) / 1e9,
		},
	}
	b, _ := json.MarshalIndent(doc, "", " ")
	if *out != "" {
		if err := os.WriteFile(*out, b, 0o644); err != nil {
			fatal(err)
		}
	} else {
		os.Stdout.Write(b)
	}
	if *forkstats {
		symex.QueryReasons.Range(func(k, v interface{}) bool {
			fmt.Fprintf(os.Stderr, "queries[%v] = %d\n", k, *(v.(*int64)))
			return true
		})
	}
	if *forkstats {
		type kv struct {
			k string
			v int
		}
		var l []kv
		for k, v := range symex.ForkStats() {
			l = append(l, kv{k, v})
		}
		sort.Slice(l, func(i, j int) bool { return l[i].v > l[j].v })
		for i, x := range l {
			if i > 25 {
				break
			}
			fmt.Fprintf(os.Stderr, "fork %6d %s\n", x.v, x.k)
		}
	}
	// brief summary on stderr
	for _, r := range res {
		nv, nu := len(r.Violations), len(r.Unknowns)
		fmt.Fprintf(os.Stderr, "%-40s paths=%-5d checks=%-3d viol=%d unk=%d err=%d covers=%d %.1fs\n", r.Name, r.Paths, len(r.Checks), nv, nu, len(r.EngineErrs), len(r.Covers), r.WallS)
	}
}

func pkgName(dir string) string {
	ents, _ := os.ReadDir(dir)
	re := regexp.MustCompile(`(?m)^package (\w+)`)
	for _, en := range ents {
		n := en.Name()
		if strings.HasSuffix(n, ".go") && !strings.HasSuffix(n, "_test.go") {
			b, err := os.ReadFile(filepath.Join(dir, n))
			if err == nil {
				if m := re.FindSubmatch(b); m != nil {
					return string(m[1])
				}
			}
		}
	}
	return "main"
}

func fatal(err error) {
	fmt.Fprintln(os.Stderr, "gosmt:", err)
	os.Exit(2)
}

// Package smt builds quantifier-free SMT-LIB2 terms (bit-vectors, arrays,
// uninterpreted functions) with constant folding, and talks to z3/cvc5.
package smt

import (
	"fmt"
	"sort"
	"strings"
	"sync"
	"sync/atomic"
)

// Sort of a term.
type Sort struct {
	Kind  SortKind
	Width int // for BV
}

type SortKind int

const (
	KBool SortKind = iota
	KBV
	KArr // (Array (_ BitVec 64) (_ BitVec 8))
	KStr // uninterpreted sort Str (atoms)
)

var (
	Bool  = Sort{KBool, 0}
	Arr   = Sort{KArr, 0}
	StrS  = Sort{KStr, 0}
	BV8   = BV(8)
	BV64  = BV(64)
	BV32  = BV(32)
	BV16  = BV(16)
	BV1   = BV(1)
)

func BV(w int) Sort { return Sort{KBV, w} }

func (s Sort) String() string {
	switch s.Kind {
	case KBool:
		return "Bool"
	case KBV:
		return fmt.Sprintf("(_ BitVec %d)", s.Width)
	case KArr:
		return "(Array (_ BitVec 64) (_ BitVec 8))"
	case KStr:
		return "Str"
	}
	return "?"
}

// Term is an immutable hash-consed SMT term.
type Term struct {
	Op    string // "const", "var", "true", "false", or SMT operator / UF name
	Args  []*Term
	Sort  Sort
	Val   uint64 // for Op=="const"
	Name  string // for Op=="var" / "uf"
	UFSig string // for uf: declared signature "(A B) R"
	id    int
	key   string
}

const nShards = 512

type shard struct {
	mu    sync.Mutex
	table map[string]*Term
}

var (
	shards [nShards]shard
	nextID int64
)


func intern(t *Term) *Term {
	var sb strings.Builder
	sb.WriteString(t.Op)
	sb.WriteByte('|')
	sb.WriteString(t.Name)
	sb.WriteByte('|')
	fmt.Fprintf(&sb, "%d.%d|%d", t.Sort.Kind, t.Sort.Width, t.Val)
	for _, a := range t.Args {
		fmt.Fprintf(&sb, ",%d", a.id)
	}
	k := sb.String()
	h := uint32(2166136261)
	for i := 0; i < len(k); i++ {
		h = (h ^ uint32(k[i])) * 16777619
	}
	sh := &shards[h%nShards]
	sh.mu.Lock()
	defer sh.mu.Unlock()
	if sh.table == nil {
		sh.table = map[string]*Term{}
	}
	if o, ok := sh.table[k]; ok {
		return o
	}
	t.id = int(atomic.AddInt64(&nextID, 1))
	t.key = k
	sh.table[k] = t
	return t
}

func (t *Term) ID() int { return t.id }

func mask(w int) uint64 {
	if w >= 64 {
		return ^uint64(0)
	}
	return (uint64(1) << uint(w)) - 1
}

// Const builds a bit-vector constant.
func Const(v uint64, w int) *Term {
	return intern(&Term{Op: "const", Sort: BV(w), Val: v & mask(w)})
}

var (
	True  = intern(&Term{Op: "true", Sort: Bool})
	False = intern(&Term{Op: "false", Sort: Bool})
)

func BoolConst(b bool) *Term {
	if b {
		return True
	}
	return False
}

// Var declares/returns a free constant.
func Var(name string, s Sort) *Term {
	return intern(&Term{Op: "var", Name: name, Sort: s})
}

// UF application. sig e.g. "(Str) (_ BitVec 64)".
func UF(name string, sig string, res Sort, args ...*Term) *Term {
	return intern(&Term{Op: "uf", Name: name, UFSig: sig, Sort: res, Args: args})
}

func (t *Term) IsConst() bool { return t.Op == "const" }
func (t *Term) IsTrue() bool  { return t.Op == "true" }
func (t *Term) IsFalse() bool { return t.Op == "false" }
func (t *Term) IsBoolConst() bool {
	return t.Op == "true" || t.Op == "false"
}

// Signed value of a constant.
func (t *Term) SVal() int64 {
	w := t.Sort.Width
	v := t.Val
	if w < 64 && v&(1<<uint(w-1)) != 0 {
		v |= ^mask(w)
	}
	return int64(v)
}

func mk(op string, s Sort, args ...*Term) *Term {
	return intern(&Term{Op: op, Sort: s, Args: args})
}

// ---------- Boolean ----------

func Not(a *Term) *Term {
	switch {
	case a.IsTrue():
		return False
	case a.IsFalse():
		return True
	case a.Op == "not":
		return a.Args[0]
	}
	return mk("not", Bool, a)
}

func And(args ...*Term) *Term {
	var out []*Term
	seen := map[int]bool{}
	for _, a := range args {
		if a.IsFalse() {
			return False
		}
		if a.IsTrue() || seen[a.id] {
			continue
		}
		if a.Op == "and" {
			for _, b := range a.Args {
				if !seen[b.id] {
					seen[b.id] = true
					out = append(out, b)
				}
			}
			continue
		}
		seen[a.id] = true
		out = append(out, a)
	}
	for _, a := range out {
		if a.Op == "not" && seen[a.Args[0].id] {
			return False
		}
	}
	switch len(out) {
	case 0:
		return True
	case 1:
		return out[0]
	}
	return mk("and", Bool, out...)
}

func Or(args ...*Term) *Term {
	var out []*Term
	seen := map[int]bool{}
	for _, a := range args {
		if a.IsTrue() {
			return True
		}
		if a.IsFalse() || seen[a.id] {
			continue
		}
		if a.Op == "or" {
			for _, b := range a.Args {
				if !seen[b.id] {
					seen[b.id] = true
					out = append(out, b)
				}
			}
			continue
		}
		seen[a.id] = true
		out = append(out, a)
	}
	for _, a := range out {
		if a.Op == "not" && seen[a.Args[0].id] {
			return True
		}
	}
	switch len(out) {
	case 0:
		return False
	case 1:
		return out[0]
	}
	return mk("or", Bool, out...)
}

func Implies(a, b *Term) *Term { return Or(Not(a), b) }

func Ite(c, a, b *Term) *Term {
	if c.IsTrue() {
		return a
	}
	if c.IsFalse() {
		return b
	}
	if a == b {
		return a
	}
	if a.Sort.Kind == KBool {
		if a.IsTrue() && b.IsFalse() {
			return c
		}
		if a.IsFalse() && b.IsTrue() {
			return Not(c)
		}
		if a.IsTrue() {
			return Or(c, b)
		}
		if a.IsFalse() {
			return And(Not(c), b)
		}
		if b.IsTrue() {
			return Or(Not(c), a)
		}
		if b.IsFalse() {
			return And(c, a)
		}
	}
	return mk("ite", a.Sort, c, a, b)
}

func Eq(a, b *Term) *Term {
	if a == b {
		return True
	}
	if a.Sort != b.Sort {
		panic(fmt.Sprintf("smt.Eq sort mismatch %v vs %v: %s = %s", a.Sort, b.Sort, a, b))
	}
	if a.IsConst() && b.IsConst() {
		return BoolConst(a.Val == b.Val)
	}
	if a.IsBoolConst() && b.IsBoolConst() {
		return BoolConst(a == b)
	}
	if a.Sort.Kind == KBool {
		if a.IsTrue() {
			return b
		}
		if b.IsTrue() {
			return a
		}
		if a.IsFalse() {
			return Not(b)
		}
		if b.IsFalse() {
			return Not(a)
		}
	}
	// distinct named literal atoms (strlit_*) are handled through axioms, not here
	if a.id > b.id {
		a, b = b, a
	}
	return mk("=", Bool, a, b)
}

func Ne(a, b *Term) *Term { return Not(Eq(a, b)) }

// ---------- Bit-vectors ----------

func bin(op string, a, b *Term) *Term {
	if a.Sort != b.Sort {
		panic(fmt.Sprintf("smt.%s sort mismatch %v vs %v", op, a.Sort, b.Sort))
	}
	return mk(op, a.Sort, a, b)
}

func Add(a, b *Term) *Term {
	w := a.Sort.Width
	if a.IsConst() && b.IsConst() {
		return Const(a.Val+b.Val, w)
	}
	if a.IsConst() && a.Val == 0 {
		return b
	}
	if b.IsConst() && b.Val == 0 {
		return a
	}
	// (x + c1) + c2
	if b.IsConst() && a.Op == "bvadd" && a.Args[1].IsConst() {
		return Add(a.Args[0], Const(a.Args[1].Val+b.Val, w))
	}
	if a.IsConst() {
		a, b = b, a
	}
	// (x - y) + y => x
	if a.Op == "bvsub" && a.Args[1] == b {
		return a.Args[0]
	}
	if b.Op == "bvsub" && b.Args[1] == a {
		return b.Args[0]
	}
	return bin("bvadd", a, b)
}

func Sub(a, b *Term) *Term {
	w := a.Sort.Width
	if a.IsConst() && b.IsConst() {
		return Const(a.Val-b.Val, w)
	}
	if b.IsConst() {
		if b.Val == 0 {
			return a
		}
		return Add(a, Const(-b.Val, w))
	}
	if a == b {
		return Const(0, w)
	}
	// (x + y) - y => x ; (x + y) - x => y
	if a.Op == "bvadd" {
		if a.Args[1] == b {
			return a.Args[0]
		}
		if a.Args[0] == b {
			return a.Args[1]
		}
		// (x + c) - y where y = (x + d) => c - d
		if b.Op == "bvadd" && a.Args[0] == b.Args[0] {
			return Sub(a.Args[1], b.Args[1])
		}
	}
	// x - (x + c) => -c
	if b.Op == "bvadd" && b.Args[0] == a {
		return Sub(Const(0, w), b.Args[1])
	}
	return bin("bvsub", a, b)
}

func Mul(a, b *Term) *Term {
	w := a.Sort.Width
	if a.IsConst() && b.IsConst() {
		return Const(a.Val*b.Val, w)
	}
	if a.IsConst() {
		a, b = b, a
	}
	if b.IsConst() {
		if b.Val == 0 {
			return b
		}
		if b.Val == 1 {
			return a
		}
	}
	return bin("bvmul", a, b)
}

func UDiv(a, b *Term) *Term {
	if a.IsConst() && b.IsConst() && b.Val != 0 {
		return Const(a.Val/b.Val, a.Sort.Width)
	}
	return bin("bvudiv", a, b)
}
func URem(a, b *Term) *Term {
	if a.IsConst() && b.IsConst() && b.Val != 0 {
		return Const(a.Val%b.Val, a.Sort.Width)
	}
	return bin("bvurem", a, b)
}
func SDiv(a, b *Term) *Term {
	if a.IsConst() && b.IsConst() && b.Val != 0 {
		return Const(uint64(a.SVal()/b.SVal()), a.Sort.Width)
	}
	return bin("bvsdiv", a, b)
}
func SRem(a, b *Term) *Term {
	if a.IsConst() && b.IsConst() && b.Val != 0 {
		return Const(uint64(a.SVal()%b.SVal()), a.Sort.Width)
	}
	return bin("bvsrem", a, b)
}
func BAnd(a, b *Term) *Term {
	if a.IsConst() && b.IsConst() {
		return Const(a.Val&b.Val, a.Sort.Width)
	}
	if a.IsConst() {
		a, b = b, a
	}
	if b.IsConst() {
		if b.Val == 0 {
			return b
		}
		if b.Val == mask(a.Sort.Width) {
			return a
		}
	}
	return bin("bvand", a, b)
}
func BOr(a, b *Term) *Term {
	if a.IsConst() && b.IsConst() {
		return Const(a.Val|b.Val, a.Sort.Width)
	}
	if a.IsConst() {
		a, b = b, a
	}
	if b.IsConst() && b.Val == 0 {
		return a
	}
	return bin("bvor", a, b)
}
func BXor(a, b *Term) *Term {
	if a.IsConst() && b.IsConst() {
		return Const(a.Val^b.Val, a.Sort.Width)
	}
	return bin("bvxor", a, b)
}
func BNot(a *Term) *Term {
	if a.IsConst() {
		return Const(^a.Val, a.Sort.Width)
	}
	return mk("bvnot", a.Sort, a)
}
func Neg(a *Term) *Term {
	if a.IsConst() {
		return Const(-a.Val, a.Sort.Width)
	}
	return mk("bvneg", a.Sort, a)
}
func Shl(a, b *Term) *Term {
	if a.IsConst() && b.IsConst() {
		if b.Val >= uint64(a.Sort.Width) {
			return Const(0, a.Sort.Width)
		}
		return Const(a.Val<<b.Val, a.Sort.Width)
	}
	if b.IsConst() && b.Val == 0 {
		return a
	}
	return bin("bvshl", a, b)
}
func LShr(a, b *Term) *Term {
	if a.IsConst() && b.IsConst() {
		if b.Val >= uint64(a.Sort.Width) {
			return Const(0, a.Sort.Width)
		}
		return Const(a.Val>>b.Val, a.Sort.Width)
	}
	if b.IsConst() && b.Val == 0 {
		return a
	}
	return bin("bvlshr", a, b)
}
func AShr(a, b *Term) *Term {
	if a.IsConst() && b.IsConst() {
		sh := b.Val
		if sh >= 63 {
			sh = 63
		}
		return Const(uint64(a.SVal()>>sh), a.Sort.Width)
	}
	if b.IsConst() && b.Val == 0 {
		return a
	}
	return bin("bvashr", a, b)
}

func cmp(op string, a, b *Term, f func(a, b *Term) bool) *Term {
	if a.Sort != b.Sort {
		panic(fmt.Sprintf("smt.%s sort mismatch %v vs %v", op, a.Sort, b.Sort))
	}
	if a.IsConst() && b.IsConst() {
		return BoolConst(f(a, b))
	}
	return mk(op, Bool, a, b)
}

func ULt(a, b *Term) *Term {
	if a == b {
		return False
	}
	if b.IsConst() && b.Val == 0 {
		return False
	}
	return cmp("bvult", a, b, func(a, b *Term) bool { return a.Val < b.Val })
}
func ULe(a, b *Term) *Term {
	if a == b {
		return True
	}
	if a.IsConst() && a.Val == 0 {
		return True
	}
	return cmp("bvule", a, b, func(a, b *Term) bool { return a.Val <= b.Val })
}
func SLt(a, b *Term) *Term {
	if a == b {
		return False
	}
	return cmp("bvslt", a, b, func(a, b *Term) bool { return a.SVal() < b.SVal() })
}
func SLe(a, b *Term) *Term {
	if a == b {
		return True
	}
	return cmp("bvsle", a, b, func(a, b *Term) bool { return a.SVal() <= b.SVal() })
}
func UGt(a, b *Term) *Term { return ULt(b, a) }
func UGe(a, b *Term) *Term { return ULe(b, a) }
func SGt(a, b *Term) *Term { return SLt(b, a) }
func SGe(a, b *Term) *Term { return SLe(b, a) }

// Extract bits [hi:lo].
func Extract(hi, lo int, a *Term) *Term {
	w := hi - lo + 1
	if lo == 0 && w == a.Sort.Width {
		return a
	}
	if a.IsConst() {
		return Const(a.Val>>uint(lo), w)
	}
	// extract low bits of a zero_extend of something narrower-or-equal
	if lo == 0 && (a.Op == "zext" || a.Op == "sext") {
		in := a.Args[0]
		if in.Sort.Width == w {
			return in
		}
		if in.Sort.Width > w {
			return Extract(hi, lo, in)
		}
		if a.Op == "zext" {
			return ZExt(in, w)
		}
	}
	t := intern(&Term{Op: "extract", Sort: BV(w), Args: []*Term{a}, Val: uint64(hi)<<16 | uint64(lo)})
	return t
}

func ZExt(a *Term, to int) *Term {
	if a.Sort.Width == to {
		return a
	}
	if a.Sort.Width > to {
		return Extract(to-1, 0, a)
	}
	if a.IsConst() {
		return Const(a.Val, to)
	}
	if a.Op == "zext" {
		return ZExt(a.Args[0], to)
	}
	return intern(&Term{Op: "zext", Sort: BV(to), Args: []*Term{a}, Val: uint64(to - a.Sort.Width)})
}

func SExt(a *Term, to int) *Term {
	if a.Sort.Width == to {
		return a
	}
	if a.Sort.Width > to {
		return Extract(to-1, 0, a)
	}
	if a.IsConst() {
		return Const(uint64(a.SVal()), to)
	}
	return intern(&Term{Op: "sext", Sort: BV(to), Args: []*Term{a}, Val: uint64(to - a.Sort.Width)})
}

// Select reads a byte array.
func Select(arr, idx *Term) *Term {
	return mk("select", BV8, arr, idx)
}

// ---------- Printing ----------

func (t *Term) head() string {
	switch t.Op {
	case "const":
		w := t.Sort.Width
		if w%4 == 0 {
			return fmt.Sprintf("#x%0*x", w/4, t.Val)
		}
		return fmt.Sprintf("#b%0*b", w, t.Val)
	case "true", "false":
		return t.Op
	case "var":
		return quote(t.Name)
	case "uf":
		return quote(t.Name)
	case "extract":
		return fmt.Sprintf("(_ extract %d %d)", t.Val>>16, t.Val&0xffff)
	case "zext":
		return fmt.Sprintf("(_ zero_extend %d)", t.Val)
	case "sext":
		return fmt.Sprintf("(_ sign_extend %d)", t.Val)
	}
	return t.Op
}

func quote(s string) string {
	for _, c := range s {
		if !(c >= 'a' && c <= 'z' || c >= 'A' && c <= 'Z' || c >= '0' && c <= '9' || c == '_' || c == '.' || c == '!' || c == '$') {
			return "|" + strings.ReplaceAll(s, "|", "/") + "|"
		}
	}
	return s
}

// String prints the term fully expanded (debug only).
func (t *Term) String() string {
	if len(t.Args) == 0 {
		return t.head()
	}
	var sb strings.Builder
	sb.WriteByte('(')
	sb.WriteString(t.head())
	for _, a := range t.Args {
		sb.WriteByte(' ')
		sb.WriteString(a.String())
	}
	sb.WriteByte(')')
	return sb.String()
}

// Script renders declarations + definitions for the DAG of the given
// assertions; returns the script text and the printable name of each root.
type Script struct {
	sb      strings.Builder
	names   map[int]string
	decl    map[string]bool
	counter int
}

func NewScript() *Script {
	return &Script{names: map[int]string{}, decl: map[string]bool{}}
}

func (s *Script) declare(t *Term) {
	switch t.Op {
	case "var":
		if !s.decl[t.Name] {
			s.decl[t.Name] = true
			fmt.Fprintf(&s.sb, "(declare-fun %s () %s)\n", quote(t.Name), t.Sort)
		}
	case "uf":
		if !s.decl[t.Name] {
			s.decl[t.Name] = true
			fmt.Fprintf(&s.sb, "(declare-fun %s %s)\n", quote(t.Name), t.UFSig)
		}
	}
}

// Ref returns a printable reference for t, emitting definitions as needed.
func (s *Script) Ref(t *Term) string {
	if n, ok := s.names[t.id]; ok {
		return n
	}
	// iterative post-order to avoid deep recursion
	type frame struct {
		t *Term
		i int
	}
	stack := []frame{{t, 0}}
	for len(stack) > 0 {
		f := &stack[len(stack)-1]
		if _, done := s.names[f.t.id]; done {
			stack = stack[:len(stack)-1]
			continue
		}
		if f.i < len(f.t.Args) {
			a := f.t.Args[f.i]
			f.i++
			if _, ok := s.names[a.id]; !ok {
				stack = append(stack, frame{a, 0})
			}
			continue
		}
		tt := f.t
		s.declare(tt)
		if len(tt.Args) == 0 {
			s.names[tt.id] = tt.head()
		} else {
			var sb strings.Builder
			sb.WriteByte('(')
			sb.WriteString(tt.head())
			for _, a := range tt.Args {
				sb.WriteByte(' ')
				sb.WriteString(s.names[a.id])
			}
			sb.WriteByte(')')
			body := sb.String()
			if len(body) > 60 {
				s.counter++
				n := fmt.Sprintf("_t%d", s.counter)
				fmt.Fprintf(&s.sb, "(define-fun %s () %s %s)\n", n, tt.Sort, body)
				s.names[tt.id] = n
			} else {
				s.names[tt.id] = body
			}
		}
		stack = stack[:len(stack)-1]
	}
	return s.names[t.id]
}

func (s *Script) Assert(t *Term) {
	r := s.Ref(t)
	fmt.Fprintf(&s.sb, "(assert %s)\n", r)
}

func (s *Script) Raw(line string) { s.sb.WriteString(line); s.sb.WriteByte('\n') }

func (s *Script) String() string { return s.sb.String() }

// Drain returns the text emitted since the last Drain and clears the buffer
// (names and declarations are remembered).
func (s *Script) Drain() string {
	t := s.sb.String()
	s.sb.Reset()
	return t
}

// FreeVars returns names of free variables (sorted) in the terms.
func FreeVars(ts ...*Term) []*Term {
	seen := map[int]bool{}
	var out []*Term
	var walk func(t *Term)
	walk = func(t *Term) {
		if seen[t.id] {
			return
		}
		seen[t.id] = true
		if t.Op == "var" {
			out = append(out, t)
		}
		for _, a := range t.Args {
			walk(a)
		}
	}
	for _, t := range ts {
		walk(t)
	}
	sort.Slice(out, func(i, j int) bool { return out[i].Name < out[j].Name })
	return out
}

// Size counts DAG nodes.
func Size(ts ...*Term) int {
	seen := map[int]bool{}
	var walk func(t *Term)
	walk = func(t *Term) {
		if seen[t.id] {
			return
		}
		seen[t.id] = true
		for _, a := range t.Args {
			walk(a)
		}
	}
	for _, t := range ts {
		walk(t)
	}
	return len(seen)
}

package smt

import (
	"bufio"
	"crypto/sha256"
	"fmt"
	"io"
	"os/exec"
	"strconv"
	"strings"
	"sync"
	"sync/atomic"
	"time"
)

type Result int

const (
	Unsat Result = iota
	Sat
	Unknown
)

func (r Result) String() string { return [...]string{"unsat", "sat", "unknown"}[r] }

// Solver is one persistent solver process.
type Solver struct {
	Kind    string // "z3", "z3-new", "cvc5"
	cmd     *exec.Cmd
	in      io.WriteCloser
	out     *bufio.Reader
	Timeout time.Duration
	Log     io.Writer // optional: every script is written here
	dead    bool
	sess    *session
	IncTimeout time.Duration // per-query cap in incremental mode (fallback to one-shot on unknown)
}

// Stats are global counters (atomic).
type Stats struct {
	Queries   int64
	Sat       int64
	Unsat     int64
	Unknown   int64
	CacheHits int64
	NanosZ3   int64
}

var GStats Stats

var (
	cacheMu sync.Mutex
	cache   = map[[32]byte]Result{}
)

func StartSolver(kind string, timeout time.Duration) (*Solver, error) {
	var cmd *exec.Cmd
	switch kind {
	case "z3":
		cmd = exec.Command("z3", "-in")
	case "z3-new":
		cmd = exec.Command("z3-new", "-in")
	case "cvc5":
		cmd = exec.Command("cvc5", "--incremental", "--produce-models", "--lang=smt2",
			fmt.Sprintf("--tlimit-per=%d", timeout.Milliseconds()))
	default:
		return nil, fmt.Errorf("unknown solver %q", kind)
	}
	in, err := cmd.StdinPipe()
	if err != nil {
		return nil, err
	}
	outp, err := cmd.StdoutPipe()
	if err != nil {
		return nil, err
	}
	cmd.Stderr = cmd.Stdout
	if err := cmd.Start(); err != nil {
		return nil, err
	}
	return &Solver{Kind: kind, cmd: cmd, in: in, out: bufio.NewReaderSize(outp, 1<<20), Timeout: timeout}, nil
}

func (s *Solver) Close() {
	if s == nil || s.cmd == nil {
		return
	}
	s.in.Close()
	done := make(chan struct{})
	go func() { s.cmd.Wait(); close(done) }()
	select {
	case <-done:
	case <-time.After(2 * time.Second):
		s.cmd.Process.Kill()
	}
}

func (s *Solver) restart() error {
	if s.cmd != nil && s.cmd.Process != nil {
		s.cmd.Process.Kill()
		s.cmd.Wait()
	}
	n, err := StartSolver(s.Kind, s.Timeout)
	if err != nil {
		return err
	}
	s.cmd, s.in, s.out, s.dead = n.cmd, n.in, n.out, false
	return nil
}

const endMark = "<<END-OF-QUERY>>"

func (s *Solver) preamble() string {
	var sb strings.Builder
	sb.WriteString("(reset)\n")
	sb.WriteString("(set-option :produce-models true)\n")
	if s.Kind != "cvc5" {
		fmt.Fprintf(&sb, "(set-option :timeout %d)\n", s.Timeout.Milliseconds())
	}
	sb.WriteString("(set-logic ALL)\n")
	sb.WriteString("(declare-sort Str 0)\n")
	return sb.String()
}

// readUntilMark reads lines until the end marker; returns lines before it.
func (s *Solver) readUntilMark(deadline time.Duration) ([]string, error) {
	type res struct {
		lines []string
		err   error
	}
	ch := make(chan res, 1)
	go func() {
		var lines []string
		for {
			line, err := s.out.ReadString('\n')
			if err != nil {
				ch <- res{lines, err}
				return
			}
			line = strings.TrimRight(line, "\r\n")
			if strings.Contains(line, endMark) {
				ch <- res{lines, nil}
				return
			}
			lines = append(lines, line)
		}
	}()
	select {
	case r := <-ch:
		return r.lines, r.err
	case <-time.After(deadline):
		s.dead = true
		s.cmd.Process.Kill()
		<-ch
		return nil, fmt.Errorf("solver wall-clock deadline exceeded")
	}
}

// Check runs the script (declarations+asserts) and returns the verdict. If
// getValues is non-empty and the verdict is sat, the values are returned as
// raw strings in the same order.
func (s *Solver) Check(script string, getValues []string) (Result, []string, error) {
	var key [32]byte
	if len(getValues) == 0 {
		key = sha256.Sum256([]byte(s.Kind + "\x00" + script))
		cacheMu.Lock()
		r, ok := cache[key]
		cacheMu.Unlock()
		if ok {
			atomic.AddInt64(&GStats.CacheHits, 1)
			return r, nil, nil
		}
	}
	if s.dead {
		if err := s.restart(); err != nil {
			return Unknown, nil, err
		}
	}
	if s.sess != nil {
		s.sess.started = false // the (reset) below discards the incremental session
	}
	full := s.preamble() + script + "(check-sat)\n(echo \"" + endMark + "\")\n"
	if s.Log != nil {
		fmt.Fprintf(s.Log, ";;;; QUERY\n%s", full)
	}
	t0 := time.Now()
	if _, err := io.WriteString(s.in, full); err != nil {
		s.dead = true
		return Unknown, nil, err
	}
	lines, err := s.readUntilMark(s.Timeout + 20*time.Second)
	dt := time.Since(t0)
	atomic.AddInt64(&GStats.NanosZ3, int64(dt))
	atomic.AddInt64(&GStats.Queries, 1)
	if err != nil {
		atomic.AddInt64(&GStats.Unknown, 1)
		return Unknown, nil, err
	}
	res := Unknown
	for _, l := range lines {
		if strings.Contains(l, "(error") {
			atomic.AddInt64(&GStats.Unknown, 1)
			if s.Log != nil {
				fmt.Fprintf(s.Log, ";;;; ERROR %s\n", l)
			}
			return Unknown, nil, fmt.Errorf("solver error: %s", l)
		}
	}
	for _, l := range lines {
		switch strings.TrimSpace(l) {
		case "sat":
			res = Sat
		case "unsat":
			res = Unsat
		case "unknown", "timeout":
			res = Unknown
		}
	}
	if s.Log != nil {
		fmt.Fprintf(s.Log, ";;;; RESULT %v in %v\n", res, dt)
	}
	switch res {
	case Sat:
		atomic.AddInt64(&GStats.Sat, 1)
	case Unsat:
		atomic.AddInt64(&GStats.Unsat, 1)
	default:
		atomic.AddInt64(&GStats.Unknown, 1)
	}
	if len(getValues) == 0 {
		if res != Unknown {
			cacheMu.Lock()
			cache[key] = res
			cacheMu.Unlock()
		}
		return res, nil, nil
	}
	if res != Sat {
		return res, nil, nil
	}
	// fetch values in chunks
	var vals []string
	const chunk = 200
	for i := 0; i < len(getValues); i += chunk {
		j := i + chunk
		if j > len(getValues) {
			j = len(getValues)
		}
		q := "(get-value (" + strings.Join(getValues[i:j], " ") + "))\n(echo \"" + endMark + "\")\n"
		if _, err := io.WriteString(s.in, q); err != nil {
			s.dead = true
			return Unknown, nil, err
		}
		ls, err := s.readUntilMark(s.Timeout + 20*time.Second)
		if err != nil {
			return Unknown, nil, err
		}
		text := strings.Join(ls, " ")
		if strings.Contains(text, "(error") {
			return Unknown, nil, fmt.Errorf("solver error in get-value: %s", text)
		}
		vs, err := parseValues(text, j-i)
		if err != nil {
			return Unknown, nil, fmt.Errorf("%v in %q", err, text)
		}
		vals = append(vals, vs...)
	}
	return res, vals, nil
}

// parseValues parses "((e1 v1) (e2 v2) ...)" and returns v_i as raw strings.
func parseValues(text string, n int) ([]string, error) {
	toks := tokenize(text)
	pos := 0
	var parse func() (interface{}, error)
	parse = func() (interface{}, error) {
		if pos >= len(toks) {
			return nil, fmt.Errorf("unexpected end")
		}
		t := toks[pos]
		pos++
		if t == "(" {
			var l []interface{}
			for pos < len(toks) && toks[pos] != ")" {
				e, err := parse()
				if err != nil {
					return nil, err
				}
				l = append(l, e)
			}
			pos++
			return l, nil
		}
		return t, nil
	}
	root, err := parse()
	if err != nil {
		return nil, err
	}
	l, ok := root.([]interface{})
	if !ok || len(l) != n {
		return nil, fmt.Errorf("expected %d values, got %v", n, root)
	}
	var out []string
	for _, p := range l {
		pl, ok := p.([]interface{})
		if !ok || len(pl) != 2 {
			return nil, fmt.Errorf("bad pair")
		}
		out = append(out, sexprString(pl[1]))
	}
	return out, nil
}

func sexprString(e interface{}) string {
	switch x := e.(type) {
	case string:
		return x
	case []interface{}:
		var parts []string
		for _, y := range x {
			parts = append(parts, sexprString(y))
		}
		return "(" + strings.Join(parts, " ") + ")"
	}
	return "?"
}

func tokenize(s string) []string {
	var toks []string
	i := 0
	for i < len(s) {
		c := s[i]
		switch {
		case c == '(' || c == ')':
			toks = append(toks, string(c))
			i++
		case c == ' ' || c == '\t' || c == '\n':
			i++
		case c == '|':
			j := i + 1
			for j < len(s) && s[j] != '|' {
				j++
			}
			toks = append(toks, s[i:j+1])
			i = j + 1
		case c == '"':
			j := i + 1
			for j < len(s) && s[j] != '"' {
				j++
			}
			toks = append(toks, s[i:j+1])
			i = j + 1
		default:
			j := i
			for j < len(s) && s[j] != '(' && s[j] != ')' && s[j] != ' ' && s[j] != '\n' && s[j] != '\t' {
				j++
			}
			toks = append(toks, s[i:j])
			i = j
		}
	}
	return toks
}

// ParseBV parses "#x..", "#b..", "(_ bvN w)", "true"/"false" into uint64.
func ParseBV(v string) (uint64, bool) {
	v = strings.TrimSpace(v)
	switch {
	case v == "true":
		return 1, true
	case v == "false":
		return 0, true
	case strings.HasPrefix(v, "#x"):
		x, err := strconv.ParseUint(v[2:], 16, 64)
		return x, err == nil
	case strings.HasPrefix(v, "#b"):
		x, err := strconv.ParseUint(v[2:], 2, 64)
		return x, err == nil
	case strings.HasPrefix(v, "(_ bv"):
		f := strings.Fields(v[5:])
		if len(f) >= 1 {
			x, err := strconv.ParseUint(f[0], 10, 64)
			return x, err == nil
		}
	}
	return 0, false
}

// ---------------- incremental sessions ----------------

// Session state: declarations/assertions are sent once per path; each query is
// a push/assert/check-sat/pop on top of them.
type session struct {
	all     strings.Builder // everything added since Begin (for resend after restart)
	pending strings.Builder // not yet sent
	digest  [32]byte
	started bool // preamble sent to the current process
}

// Begin starts a new session (lazily resets the solver on first real query).
func (s *Solver) Begin() {
	s.sess = &session{}
}

// Add appends declarations/assertions to the session.
func (s *Solver) Add(text string) {
	if text == "" {
		return
	}
	s.sess.all.WriteString(text)
	s.sess.pending.WriteString(text)
	h := sha256.New()
	h.Write(s.sess.digest[:])
	h.Write([]byte(text))
	copy(s.sess.digest[:], h.Sum(nil))
}

// CheckInc checks the session assertions plus extra (assert commands).
func (s *Solver) CheckInc(extra string, getValues []string) (Result, []string, error) {
	var key [32]byte
	if len(getValues) == 0 {
		h := sha256.New()
		h.Write([]byte(s.Kind + "\x00inc\x00"))
		h.Write(s.sess.digest[:])
		h.Write([]byte(extra))
		copy(key[:], h.Sum(nil))
		cacheMu.Lock()
		r, ok := cache[key]
		cacheMu.Unlock()
		if ok {
			atomic.AddInt64(&GStats.CacheHits, 1)
			return r, nil, nil
		}
	}
	if s.dead {
		if err := s.restart(); err != nil {
			return Unknown, nil, err
		}
		s.sess.started = false
	}
	var out strings.Builder
	if !s.sess.started {
		out.WriteString(s.preamble())
		out.WriteString(s.sess.all.String())
		s.sess.started = true
	} else {
		out.WriteString(s.sess.pending.String())
	}
	s.sess.pending.Reset()
	out.WriteString("(push 1)\n")
	if s.Kind != "cvc5" && s.IncTimeout > 0 {
		fmt.Fprintf(&out, "(set-option :timeout %d)\n", s.IncTimeout.Milliseconds())
	}
	out.WriteString(extra)
	out.WriteString("(check-sat)\n(echo \"" + endMark + "\")\n")
	if s.Log != nil {
		fmt.Fprintf(s.Log, ";;;; QUERY(inc)\n%s", out.String())
	}
	t0 := time.Now()
	if _, err := io.WriteString(s.in, out.String()); err != nil {
		s.dead = true
		return Unknown, nil, err
	}
	lines, err := s.readUntilMark(s.Timeout + 20*time.Second)
	dt := time.Since(t0)
	atomic.AddInt64(&GStats.NanosZ3, int64(dt))
	atomic.AddInt64(&GStats.Queries, 1)
	if err != nil {
		atomic.AddInt64(&GStats.Unknown, 1)
		return Unknown, nil, err
	}
	res := Unknown
	for _, l := range lines {
		if strings.Contains(l, "(error") {
			atomic.AddInt64(&GStats.Unknown, 1)
			if s.Log != nil {
				fmt.Fprintf(s.Log, ";;;; ERROR %s\n", l)
			}
			s.dead = true // resynchronise on the next query
			s.cmd.Process.Kill()
			return Unknown, nil, fmt.Errorf("solver error: %s", l)
		}
	}
	for _, l := range lines {
		switch strings.TrimSpace(l) {
		case "sat":
			res = Sat
		case "unsat":
			res = Unsat
		}
	}
	if s.Log != nil {
		fmt.Fprintf(s.Log, ";;;; RESULT %v in %v\n", res, dt)
	}
	switch res {
	case Sat:
		atomic.AddInt64(&GStats.Sat, 1)
	case Unsat:
		atomic.AddInt64(&GStats.Unsat, 1)
	default:
		atomic.AddInt64(&GStats.Unknown, 1)
	}
	var vals []string
	if res == Sat && len(getValues) > 0 {
		const chunk = 200
		for i := 0; i < len(getValues); i += chunk {
			j := i + chunk
			if j > len(getValues) {
				j = len(getValues)
			}
			q := "(get-value (" + strings.Join(getValues[i:j], " ") + "))\n(echo \"" + endMark + "\")\n"
			if _, err := io.WriteString(s.in, q); err != nil {
				s.dead = true
				return Unknown, nil, err
			}
			ls, err := s.readUntilMark(s.Timeout + 20*time.Second)
			if err != nil {
				return Unknown, nil, err
			}
			text := strings.Join(ls, " ")
			if strings.Contains(text, "(error") {
				s.dead = true
				s.cmd.Process.Kill()
				return Unknown, nil, fmt.Errorf("solver error in get-value: %s", text)
			}
			vs, err := parseValues(text, j-i)
			if err != nil {
				return Unknown, nil, fmt.Errorf("%v in %q", err, text)
			}
			vals = append(vals, vs...)
		}
	}
	if _, err := io.WriteString(s.in, "(pop 1)\n"); err != nil {
		s.dead = true
	}
	if len(getValues) == 0 && res != Unknown {
		cacheMu.Lock()
		cache[key] = res
		cacheMu.Unlock()
	}
	return res, vals, nil
}

package symex

import (
	"fmt"
	"os"
	"path/filepath"
	"regexp"
	"sort"
	"strings"
	"sync"
	"time"

	"golang.org/x/tools/go/packages"
	"golang.org/x/tools/go/ssa"
	"golang.org/x/tools/go/ssa/ssautil"
)

func goRegexMatch(pat, s string) bool {
	return regexp.MustCompile(pat).MatchString(s)
}

// LoadSpec describes what to load.
type LoadSpec struct {
	RepoDir  string
	Patterns []string          // package patterns, e.g. ./types/compkey
	Overlay  map[string][]byte // absolute path -> content
	Tags     []string
}

// Load builds the SSA program.
func Load(spec LoadSpec) (*Program, error) {
	cfg := &packages.Config{
		Mode: packages.NeedName | packages.NeedFiles | packages.NeedCompiledGoFiles | packages.NeedImports |
			packages.NeedDeps | packages.NeedTypes | packages.NeedSyntax | packages.NeedTypesInfo | packages.NeedTypesSizes | packages.NeedModule,
		Dir:     spec.RepoDir,
		Overlay: spec.Overlay,
		Env:     append(os.Environ(), "GOFLAGS=-mod=mod", "GOPROXY=off", "GOSUMDB=off", "GOTOOLCHAIN=local"),
	}
	if len(spec.Tags) > 0 {
		cfg.BuildFlags = []string{"-tags=" + strings.Join(spec.Tags, ",")}
	}
	pkgs, err := packages.Load(cfg, spec.Patterns...)
	if err != nil {
		return nil, err
	}
	var errs []string
	for _, p := range pkgs {
		for _, e := range p.Errors {
			errs = append(errs, e.Error())
		}
	}
	if len(errs) > 0 {
		return nil, fmt.Errorf("package errors:\n%s", strings.Join(errs, "\n"))
	}
	prog, ssapkgs := ssautil.AllPackages(pkgs, ssa.InstantiateGenerics)
	out := &Program{Prog: prog, Pkgs: map[string]*ssa.Package{}}
	for i, p := range ssapkgs {
		if p == nil {
			return nil, fmt.Errorf("no SSA package for %s", pkgs[i].PkgPath)
		}
		p.Build()
		out.Pkgs[pkgs[i].PkgPath] = p
	}
	out.ExecPkgs = []string{"github.com/medibloc/panacea-core/v2", "github.com/cosmos/cosmos-sdk/x/nft"}
	// Build, before any worker starts, every package whose functions may be
	// executed from SSA: interpreting a function while another goroutine is
	// still building/lifting its package is a data race (seen as "block without
	// terminator" / unlifted ssa:deferstack in a cold run).
	need := map[string]bool{}
	for f := range execFuncs {
		name := strings.TrimPrefix(strings.TrimPrefix(f, "("), "*")
		if i := strings.LastIndex(name, "."); i > 0 {
			name = name[:i]
			if j := strings.LastIndex(name, ")"); j >= 0 {
				name = name[:j]
			}
			if k := strings.LastIndex(name, "."); k > strings.LastIndex(name, "/") {
				name = name[:k]
			}
			need[name] = true
		}
	}
	for _, p := range prog.AllPackages() {
		path := p.Pkg.Path()
		exec := need[path]
		for _, pre := range out.ExecPkgs {
			if path == pre || strings.HasPrefix(path, pre+"/") {
				exec = true
			}
		}
		if exec {
			p.Build()
		}
	}
	return out, nil
}

// HarnessResult is the serialisable outcome of one harness function.
type HarnessResult struct {
	Name        string                  `json:"name"`
	Pkg         string                  `json:"pkg"`
	Paths       int                     `json:"paths"`
	PathsEnded  map[string]int          `json:"paths_ended"`
	Checks      map[string]*CheckStat   `json:"checks"`
	Violations  []CheckResult           `json:"violations,omitempty"`
	Unknowns    []CheckResult           `json:"unknowns,omitempty"`
	Covers      map[string]*CoverResult `json:"covers"`
	EngineErrs  []string                `json:"engine_errors,omitempty"`
	Funcs       []string                `json:"functions_encoded"`
	Stubs       []string                `json:"stubs_used"`
	Notes       []string                `json:"notes"`
	PreWrites   []string                `json:"writes_to_preexisting_memory,omitempty"`
	EventTraces []string                `json:"event_traces,omitempty"`
	WallS       float64                 `json:"wall_s"`
}

func keys(m map[string]bool) []string {
	var ks []string
	for k := range m {
		ks = append(ks, k)
	}
	sort.Strings(ks)
	return ks
}

// RunAll runs the named harness functions of a package in parallel.
func RunAll(p *Program, pkgPath string, match *regexp.Regexp, cfg Config, workers int, logDir string) ([]*HarnessResult, error) {
	pkg := p.Pkgs[pkgPath]
	if pkg == nil {
		return nil, fmt.Errorf("package %s not loaded", pkgPath)
	}
	var fns []*ssa.Function
	for name, m := range pkg.Members {
		f, ok := m.(*ssa.Function)
		if !ok || !strings.HasPrefix(name, "vHarness") {
			continue
		}
		if match != nil && !match.MatchString(name) {
			continue
		}
		fns = append(fns, f)
	}
	sort.Slice(fns, func(i, j int) bool { return fns[i].Name() < fns[j].Name() })
	if len(fns) == 0 {
		return nil, fmt.Errorf("no harness functions matching in %s", pkgPath)
	}
	// parallel path exploration: a shared LIFO of (harness, decision prefix)
	type job struct {
		h      int
		prefix []int
	}
	var (
		mu      sync.Mutex
		cond    = sync.NewCond(&mu)
		queue   []job
		busy    int
		firstErr error
	)
	agg := make([]*ResultSet, len(fns))
	started := make([]time.Time, len(fns))
	finished := make([]time.Time, len(fns))
	pending := make([]int, len(fns)) // queued + running jobs per harness
	for i := range fns {
		agg[i] = NewResultSet()
		queue = append(queue, job{i, nil})
		pending[i] = 1
	}
	// reverse so that the first harness is popped first
	for i, j := 0, len(queue)-1; i < j; i, j = i+1, j-1 {
		queue[i], queue[j] = queue[j], queue[i]
	}
	if workers < 1 {
		workers = 1
	}
	var wg sync.WaitGroup
	for w := 0; w < workers; w++ {
		wg.Add(1)
		go func(w int) {
			defer wg.Done()
			ex, err := NewExec(p, cfg)
			if err != nil {
				mu.Lock()
				firstErr = err
				mu.Unlock()
				return
			}
			defer ex.Close()
			if logDir != "" {
				if f, err := os.Create(filepath.Join(logDir, fmt.Sprintf("worker%d.smt2", w))); err == nil {
					defer f.Close()
					ex.SetSolverLog(f)
				}
			}
			for {
				mu.Lock()
				for len(queue) == 0 && busy > 0 {
					cond.Wait()
				}
				if len(queue) == 0 {
					mu.Unlock()
					cond.Broadcast()
					return
				}
				j := queue[len(queue)-1]
				queue = queue[:len(queue)-1]
				busy++
				if started[j.h].IsZero() {
					started[j.h] = time.Now()
				}
				skip := agg[j.h].Paths >= cfg.MaxPaths && cfg.MaxPaths > 0 || len(agg[j.h].EngineErrs) > 20
				mu.Unlock()
				var alts [][]int
				local := NewResultSet()
				if !skip {
					ex.ResultSet = local
					ex.RunPath(fns[j.h], j.prefix)
					alts = ex.TakeWork()
				}
				mu.Lock()
				agg[j.h].Merge(local)
				for _, a := range alts {
					queue = append(queue, job{j.h, a})
				}
				pending[j.h] += len(alts) - 1
				if pending[j.h] == 0 {
					finished[j.h] = time.Now()
				}
				busy--
				mu.Unlock()
				cond.Broadcast()
			}
		}(w)
	}
	wg.Wait()
	results := make([]*HarnessResult, len(fns))
	for i, fn := range fns {
		r := agg[i]
		results[i] = &HarnessResult{
			Name: fn.Name(), Pkg: pkgPath, Paths: r.Paths, PathsEnded: r.PathsEnded,
			Checks: r.Checks, Violations: r.Violations, Unknowns: r.Unknowns, Covers: r.Covers,
			EngineErrs: r.EngineErrs, Funcs: keys(r.FuncsSeen), Stubs: keys(r.StubsSeen), Notes: keys(r.Notes),
			PreWrites: keys(r.PreWrites), EventTraces: keys(r.EventTraces),
			WallS: finished[i].Sub(started[i]).Seconds(),
		}
	}
	return results, firstErr
}

package symex

import (
	"fmt"
	"go/types"
	"runtime"
	"strings"

	"golang.org/x/tools/go/ssa"

	"verif/engine/smt"
)

type stubFn func(e *Exec, fn *ssa.Function, args []Value) Value

var stubs = map[string]stubFn{}

// execFuncs lists library functions executed from their real SSA.
var execFuncs = map[string]bool{}

func asEngineErr(r interface{}) (engineError, bool) {
	switch x := r.(type) {
	case engineError:
		return x, true
	case runtime.Error:
		buf := make([]byte, 4096)
		n := runtime.Stack(buf, false)
		return engineError{"interpreter fault: " + x.Error() + "\n" + string(buf[:n])}, true
	}
	return engineError{}, false
}

// ErrData is the payload of an opaque error value.
type ErrData struct {
	Tag string
	ID  int
}

func (e *Exec) newErr(tag string) Value {
	e.path.nextObj++
	return Iface{Typ: errType, Val: Opaque{Kind: "error", Data: &ErrData{Tag: tag, ID: e.path.nextObj}}}
}

var errType = types.Universe.Lookup("error").Type()

func nilErr() Value { return Iface{} }

func isNilIface(v Value) bool {
	i, ok := v.(Iface)
	return ok && i.Typ == nil
}

func (e *Exec) goString(v Value) (string, bool) {
	s, ok := v.(Str)
	if !ok {
		return "", false
	}
	return strView(s).concrete()
}

func (e *Exec) mustConstString(v Value, what string) string {
	s, ok := e.goString(v)
	if !ok {
		panic(engineErr("%s must be a constant string", what))
	}
	return s
}

func (e *Exec) mustConstInt(v Value, what string) int {
	t, ok := v.(*smt.Term)
	if !ok || !t.IsConst() {
		panic(engineErr("%s must be a constant int", what))
	}
	return int(t.SVal())
}

func (e *Exec) addSite(ns NondetSite) {
	e.path.nondets = append(e.path.nondets, ns)
}

func init() {
	// ---------------- intrinsics (harness runtime) ----------------
	reg := func(name string, f stubFn) { stubs[name] = f }
	_ = reg
}

// intrinsic dispatches functions whose name starts with "v" and are declared
// in the harness runtime file zz_verif_rt.go (any package).
func (e *Exec) intrinsic(fn *ssa.Function, args []Value) (Value, bool) {
	name := fn.Name()
	switch name {
	case "vNondetU64", "vNondetI64", "vNondetInt", "vNondetByte", "vNondetBool", "vNondetU32", "vNondetI32":
		site := e.siteKey(e.mustConstString(args[0], "nondet site"))
		var s smt.Sort
		kind := "u64"
		switch name {
		case "vNondetU64":
			s = smt.BV64
		case "vNondetI64":
			s, kind = smt.BV64, "i64"
		case "vNondetInt":
			s, kind = smt.BV64, "int"
		case "vNondetU32":
			s, kind = smt.BV32, "u64"
		case "vNondetI32":
			s, kind = smt.BV32, "i64"
		case "vNondetByte":
			s, kind = smt.BV8, "byte"
		case "vNondetBool":
			s, kind = smt.Bool, "bool"
		}
		t := smt.Var("in:"+site, s)
		e.addSite(NondetSite{Key: site, Kind: kind, Term: t})
		return t, true
	case "vNondetBytes", "vNondetString":
		site := e.siteKey(e.mustConstString(args[0], "nondet site"))
		max := e.mustConstInt(args[1], "nondet max length")
		arr := smt.Var("arr:"+site, smt.Arr)
		ln := smt.Var("len:"+site, smt.BV64)
		if max >= 0 {
			e.assume(smt.ULe(ln, c64(max)))
		} else {
			e.assume(smt.ULe(ln, smt.Const(1<<20, 64)))
		}
		kind := "bytes"
		if name == "vNondetString" {
			kind = "string"
		}
		e.addSite(NondetSite{Key: site, Kind: kind, Len: ln, Arr: arr, Max: max})
		if name == "vNondetString" {
			return Str{Fn: FnArr{arr}, Off: c0, Len: ln}, true
		}
		buf := e.newBuf(FnArr{arr}, ln)
		return Bytes{Buf: buf, Off: c0, Len: ln, Cap: ln}, true
	case "vNondetAtom":
		site := e.siteKey(e.mustConstString(args[0], "nondet site"))
		t := smt.Var("atom:"+site, smt.StrS)
		e.assume(smt.ULe(strlenOf(t), smt.Const(600, 64)))
		e.addSite(NondetSite{Key: site, Kind: "atom", Term: t})
		e.registerAtom(t)
		return Str{Fn: FnAtom{t}, Off: c0, Len: strlenOf(t)}, true
	case "vNondetAddr":
		// a valid bech32 account address string built from nondeterministic bytes
		site := e.siteKey(e.mustConstString(args[0], "nondet site"))
		b := smt.Var("atom:"+site, smt.StrS)
		e.assume(smt.And(smt.ULe(c1, strlenOf(b)), smt.ULe(strlenOf(b), c64(e.addrMax()))))
		e.addSite(NondetSite{Key: site, Kind: "atom", Term: b})
		e.registerAtom(b)
		s := e.bech32Enc(b)
		return Str{Fn: FnAtom{s}, Off: c0, Len: strlenOf(s)}, true
	case "vAssume":
		c := args[0].(*smt.Term)
		if c.IsFalse() {
			panic(pathEnd{"assume-false"})
		}
		if e.path.cursor >= len(e.path.decisions) {
			if e.feasible(c) == smt.Unsat {
				panic(pathEnd{"assume-false"})
			}
		}
		e.assume(c)
		return nil, true
	case "vCheck":
		e.check(args[0].(*smt.Term), e.mustConstString(args[1], "check label"))
		return nil, true
	case "vCover":
		e.cover(e.mustConstString(args[0], "cover label"))
		return nil, true
	case "vUnreachable":
		e.check(smt.False, "unreachable: "+e.mustConstString(args[0], "label"))
		return nil, true
	case "vCatch":
		// run closure; report whether it panicked
		f := args[0].(*Func)
		panicked := false
		func() {
			defer func() {
				if r := recover(); r != nil {
					if _, ok := r.(goPanic); ok {
						panicked = true
						return
					}
					panic(r)
				}
			}()
			e.callFn(f.Fn, nil, f.Bindings, nil)
		}()
		return smt.BoolConst(panicked), true
	case "vBytesEqual":
		return e.bytesEq(args[0].(Bytes), args[1].(Bytes)), true
	case "vHasPrefix":
		return e.hasPrefixTerm(bytesView(args[0].(Bytes)), bytesView(args[1].(Bytes))), true
	case "vHasPrefixS":
		return e.hasPrefixTerm(strView(args[0].(Str)), strView(args[1].(Str))), true
	case "vInstantiate":
		// register an index term for targeted instantiation of assumed equalities
		e.path.idxTerms = append(e.path.idxTerms, smt.SExt(args[0].(*smt.Term), 64))
		return nil, true
	case "vNote":
		e.Notes[e.mustConstString(args[0], "note")] = true
		return nil, true
	case "vSymbolic":
		return smt.True, true
	case "vPickString":
		// vPickString(idx, options...): symbolic selection among atoms without forking
		idx := args[0].(*smt.Term)
		sl := args[1].(Slice)
		if sl.Len == 0 {
			panic(engineErr("vPickString without options"))
		}
		var res *smt.Term
		for i := sl.Len - 1; i >= 0; i-- {
			sv := strView(sl.Arr.Val.(*Array).Elems[sl.Off+i].(Str))
			t, ok := sv.wholeAtom()
			if !ok {
				cs, isC := sv.concrete()
				if !isC {
					panic(engineErr("vPickString options must be atoms or literals"))
				}
				t = e.literalAtom(cs)
			}
			if res == nil {
				res = t
			} else {
				res = smt.Ite(smt.Eq(idx, smt.Const(uint64(i), idx.Sort.Width)), t, res)
			}
		}
		return Str{Fn: FnAtom{res}, Off: c0, Len: strlenOf(res)}, true
	case "vAllBytesIn", "vNoBytesIn":
		// spec-level predicate: every byte of s[lo:hi] is (not) one of the bytes of set;
		// encoded by bounded expansion, independent of the regexp translator
		sv := strView(args[0].(Str))
		lo := smt.SExt(args[1].(*smt.Term), 64)
		hi := smt.SExt(args[2].(*smt.Term), 64)
		set := e.mustConstString(args[3], "byte set")
		M, ok := e.feasibleMax(sv.Len)
		if !ok {
			panic(engineErr("%s on a string of unbounded length", name))
		}
		var cs []*smt.Term
		for i := 0; i < M; i++ {
			b := sv.at(c64(i))
			var in []*smt.Term
			// compress the set into ranges
			present := [256]bool{}
			for k := 0; k < len(set); k++ {
				present[set[k]] = true
			}
			for c := 0; c < 256; {
				if !present[c] {
					c++
					continue
				}
				d := c
				for d+1 < 256 && present[d+1] {
					d++
				}
				if c == d {
					in = append(in, smt.Eq(b, smt.Const(uint64(c), 8)))
				} else {
					in = append(in, smt.And(smt.UGe(b, smt.Const(uint64(c), 8)), smt.ULe(b, smt.Const(uint64(d), 8))))
				}
				c = d + 1
			}
			member := smt.Or(in...)
			if name == "vNoBytesIn" {
				member = smt.Not(member)
			}
			inRange := smt.And(smt.SLe(lo, c64(i)), smt.SLt(c64(i), hi), smt.ULt(c64(i), sv.Len))
			cs = append(cs, smt.Implies(inRange, member))
		}
		return smt.And(cs...), true
	case "vAll", "vAny":
		sl := args[0].(Slice)
		var ts []*smt.Term
		for i := 0; i < sl.Len; i++ {
			ts = append(ts, sl.Arr.Val.(*Array).Elems[sl.Off+i].(*smt.Term))
		}
		if name == "vAll" {
			return smt.And(ts...), true
		}
		return smt.Or(ts...), true
	}
	if strings.HasPrefix(name, "vEnv") {
		return e.envIntrinsic(fn, args), true
	}
	if f, ok := extraIntrinsics[name]; ok {
		return f(e, fn, args), true
	}
	return nil, false
}

var extraIntrinsics = map[string]stubFn{}

func (e *Exec) addrMax() int {
	if v, ok := e.path.extra["addrMax"].(int); ok {
		return v
	}
	return 255
}

// registerAtom records an input atom. Skolemised extensionality between
// input atoms (distinct atoms differ in length or at some byte) is only needed
// to make models realisable as concrete strings, so it is added lazily, at
// model-extraction time (extAxioms); atoms registered as eager (key material)
// get it at once because verdicts compare their bytes.
func (e *Exec) registerAtom(t *smt.Term) { e.registerAtomEager(t) }

// (measured: adding the axioms only at model-extraction time made the DID
// handler queries 1.8x slower in z3, so they are asserted eagerly)
func (e *Exec) registerAtomEager(t *smt.Term) {
	eager, _ := e.path.extra["eagerAtoms"].([]*smt.Term)
	for _, o := range eager {
		e.addAxiom(e.extAxiom(t, o))
	}
	e.path.extra["eagerAtoms"] = append(eager, t)
}

func (e *Exec) extAxiom(t, o *smt.Term) *smt.Term {
	k := e.fresh("ext", smt.BV64)
	return smt.Or(smt.Eq(t, o), smt.Ne(strlenOf(t), strlenOf(o)),
		smt.And(smt.ULt(k, strlenOf(t)), smt.Ne(FnAtom{t}.Read(k), FnAtom{o}.Read(k))))
}

// extAxioms returns the pairwise extensionality facts of all input atoms.
func (e *Exec) extAxioms() []*smt.Term {
	atoms, _ := e.path.extra["atoms"].([]*smt.Term) // empty: all atoms are eager
	var out []*smt.Term
	for i := range atoms {
		for j := 0; j < i; j++ {
			out = append(out, e.extAxiom(atoms[i], atoms[j]))
		}
	}
	return out
}

// patternStub handles families of functions by name pattern.
func (e *Exec) patternStub(fn *ssa.Function, name string, args []Value) (Value, bool) {
	// harness intrinsics
	if strings.HasPrefix(fn.Name(), "v") && fn.Pkg != nil {
		if f := fn.Prog.Fset.File(fn.Pos()); f != nil && strings.Contains(f.Name(), "zz_verif_rt") {
			if v, ok := e.intrinsic(fn, args); ok {
				return v, true
			}
			panic(engineErr("unknown intrinsic %s", fn.Name()))
		}
	}
	return e.libPattern(fn, name, args)
}

func fmtArgsOpaque() Str { return constStr("<formatted>") }

var _ = fmt.Sprintf

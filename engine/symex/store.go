package symex

import (
	"fmt"

	"verif/engine/smt"
)

// CtxData models sdk.Context.
type CtxData struct {
	BlockTime   *smt.Term
	BlockHeight *smt.Term // lazily: an arbitrary non-negative height, fixed per context
	Name        string
	// cache contexts (Context.CacheContext): a branch of the bank state that reaches the parent
	// only when the returned write function is called
	Parent *CtxData
	Bank   *BankModel
	Cached bool
}

// KItem is one item of a structured key: raw bytes or a compkey component
// (which stands for [len byte][bytes]).
type KItem struct {
	Comp bool
	V    view
}

// KVStore is a finite symbolic store: a set of entries with pairwise distinct
// keys (distinctness is part of the path condition).
type KVStore struct {
	Name    string
	Entries []*kvEntry
	Writes  int
	Reads   int
	before  map[[2]*kvEntry]bool // iteration order decided so far (a strict order, fixed for the whole run)
}

type kvEntry struct {
	Key []KItem
	Val Bytes
}

type StoreRef struct {
	KV     *KVStore
	Prefix []KItem
}

type iterData struct {
	ref     *StoreRef
	entries []*kvEntry
	pos     int
}

func (e *Exec) ctxKVStore(ctx Value, key Value) Value {
	name := "store"
	if p, ok := key.(Iface); ok {
		if o, ok := p.Val.(Opaque); ok {
			name = fmt.Sprint(o.Data)
		} else if pp, ok := p.Val.(Ptr); ok && pp.Obj != nil {
			name = pp.Obj.Name
		}
	}
	if o, ok := key.(Opaque); ok {
		name = fmt.Sprint(o.Data)
	}
	// stores are per context family: a context made by another vEnv* call has its own multistore
	if co, ok := ctx.(Opaque); ok {
		if cd, ok := co.Data.(*CtxData); ok && cd != nil && cd.Cached {
			panic(engineErr("KV store access through a cache context (Context.CacheContext) is not modelled"))
		}
		if cd, ok := co.Data.(*CtxData); ok && cd != nil {
			name = cd.Name + "/" + name
		}
	}
	kv := e.path.stores[name]
	if kv == nil {
		kv = &KVStore{Name: name}
		e.path.stores[name] = kv
	}
	return Iface{Typ: nil, Val: Opaque{Kind: "store", Data: &StoreRef{KV: kv}}}.asStore()
}

// asStore gives the interface value a non-nil dynamic type marker.
func (i Iface) asStore() Iface {
	i.Typ = storeMarkerType
	return i
}

func (e *Exec) storeRefOf(v Value) *StoreRef {
	switch x := v.(type) {
	case Iface:
		return e.storeRefOf(x.Val)
	case Opaque:
		if x.Kind == "store" {
			if x.Data == nil {
				panic(engineErr("use of zero prefix.Store"))
			}
			return x.Data.(*StoreRef)
		}
	}
	panic(engineErr("not a store: %T", v))
}

func (e *Exec) prefixStore(parent Value, prefix Value) Value {
	ref := e.storeRefOf(parent)
	items := append(append([]KItem{}, ref.Prefix...), e.keyItems(prefix.(Bytes))...)
	return Opaque{Kind: "store", Data: &StoreRef{KV: ref.KV, Prefix: items}}
}

// keyItems returns the structured form of a byte slice used as a key.
func (e *Exec) keyItems(b Bytes) []KItem {
	if b.Segs != nil {
		return b.Segs
	}
	v := bytesView(b)
	if v.Len.IsConst() && v.Len.Val == 0 {
		return nil
	}
	return []KItem{{Comp: false, V: v}}
}

func normItems(items []KItem) []KItem {
	var out []KItem
	for _, it := range items {
		if !it.Comp && it.V.Len.IsConst() && it.V.Len.Val == 0 {
			continue
		}
		// merge adjacent concrete raw items
		if !it.Comp && len(out) > 0 && !out[len(out)-1].Comp {
			a := out[len(out)-1].V
			if sa, ok := a.concrete(); ok {
				if sb, ok := it.V.concrete(); ok {
					out[len(out)-1] = KItem{V: view{FnConst{sa + sb}, c0, c64(len(sa) + len(sb))}}
					continue
				}
			}
		}
		out = append(out, it)
	}
	return out
}

// flatten materialises a structured key as one byte view.
func (e *Exec) flatten(items []KItem) view {
	var fn ByteFn = FnZero{}
	off := c0
	for _, it := range items {
		if it.Comp {
			fn = FnWrite{fn, off, smt.Extract(7, 0, it.V.Len)}
			off = smt.Add(off, c1)
		}
		fn = FnCopy{Old: fn, DOff: off, Src: it.V.Fn, SOff: it.V.Off, N: it.V.Len}
		off = smt.Add(off, it.V.Len)
	}
	return view{fn, c0, off}
}

// keyEqTerm: equality of two structured keys.
func (e *Exec) keyEqTerm(a, b []KItem) *smt.Term {
	a, b = normItems(a), normItems(b)
	if t, ok := e.alignedEq(a, b); ok {
		return t
	}
	return e.viewEq(e.flatten(a), e.flatten(b))
}

func (e *Exec) alignedEq(a, b []KItem) (*smt.Term, bool) {
	allComp := func(x []KItem) bool {
		for _, it := range x {
			if !it.Comp {
				return false
			}
		}
		return true
	}
	if len(a) != len(b) {
		// pure component tuples of different arity never collide (C18: the
		// encoding is injective on tuples, arity included) once the common
		// raw prefix is equal
		i := 0
		for i < len(a) && i < len(b) && !a[i].Comp && !b[i].Comp && a[i].V.Len.IsConst() && b[i].V.Len.IsConst() && a[i].V.Len.Val == b[i].V.Len.Val {
			i++
		}
		if allComp(a[i:]) && allComp(b[i:]) {
			return smt.False, true
		}
		return nil, false
	}
	var cs []*smt.Term
	for i := range a {
		if a[i].Comp != b[i].Comp {
			return nil, false
		}
		last := i == len(a)-1
		if !a[i].Comp && !last {
			if !(a[i].V.Len.IsConst() && b[i].V.Len.IsConst()) {
				return nil, false
			}
			if a[i].V.Len.Val != b[i].V.Len.Val {
				return nil, false
			}
		}
		cs = append(cs, e.viewEq(a[i].V, b[i].V))
	}
	return smt.And(cs...), true
}

// keyHasPrefix: pre is a byte prefix of key. Second result: remaining items.
func (e *Exec) keyHasPrefix(key, pre []KItem) (*smt.Term, []KItem) {
	key, pre = normItems(key), normItems(pre)
	if len(pre) == 0 {
		return smt.True, key
	}
	if len(pre) <= len(key) {
		ok := true
		var cs []*smt.Term
		var rest []KItem
		for i := range pre {
			if pre[i].Comp != key[i].Comp {
				ok = false
				break
			}
			if pre[i].Comp {
				cs = append(cs, e.viewEq(pre[i].V, key[i].V))
				continue
			}
			if !(pre[i].V.Len.IsConst() && key[i].V.Len.IsConst()) {
				// symbolic raw item: only allowed as last item of the prefix
				if i != len(pre)-1 {
					ok = false
					break
				}
				cs = append(cs, e.hasPrefixTerm(key[i].V, pre[i].V))
				rest = append(rest, KItem{V: view{key[i].V.Fn, smt.Add(key[i].V.Off, pre[i].V.Len), smt.Sub(key[i].V.Len, pre[i].V.Len)}})
				continue
			}
			pl, kl := pre[i].V.Len.Val, key[i].V.Len.Val
			if pl == kl {
				cs = append(cs, e.viewEq(pre[i].V, key[i].V))
			} else if pl < kl && i == len(pre)-1 {
				cs = append(cs, e.hasPrefixTerm(key[i].V, pre[i].V))
				rest = append(rest, KItem{V: view{key[i].V.Fn, smt.Add(key[i].V.Off, pre[i].V.Len), smt.Sub(key[i].V.Len, pre[i].V.Len)}})
			} else {
				return smt.False, nil
			}
		}
		if ok {
			rest = append(rest, key[len(pre):]...)
			return smt.And(cs...), rest
		}
	}
	// misaligned: byte level
	fk, fp := e.flatten(key), e.flatten(pre)
	return e.hasPrefixTerm(fk, fp), []KItem{{V: view{fk.Fn, smt.Add(fk.Off, fp.Len), smt.Sub(fk.Len, fp.Len)}}}
}

func (e *Exec) itemsToBytes(items []KItem) Bytes {
	items = normItems(items)
	v := e.flatten(items)
	buf := e.newBuf(v.Fn, v.Len)
	b := Bytes{Buf: buf, Off: c0, Len: v.Len, Cap: v.Len}
	structured := false
	for _, it := range items {
		if it.Comp {
			structured = true
		}
	}
	if structured {
		b.Segs = items
	} else if len(items) == 1 {
		// keep atom identity
		buf.Fn = items[0].V.normalized()
		if _, ok := items[0].V.wholeAtom(); ok {
			buf.Fn = items[0].V.Fn
		}
	}
	return b
}

func (e *Exec) fullKey(ref *StoreRef, k Bytes) []KItem {
	return append(append([]KItem{}, ref.Prefix...), e.keyItems(k)...)
}

func (e *Exec) storeFind(ref *StoreRef, key []KItem) *kvEntry {
	ref.KV.Reads++
	for _, en := range ref.KV.Entries {
		if e.branch(e.keyEqTerm(en.Key, key)) {
			return en
		}
	}
	return nil
}

func (e *Exec) storeMethod(o Opaque, method string, args []Value) Value {
	ref := e.storeRefOf(o)
	switch method {
	case "Get":
		k := args[0].(Bytes)
		if k.Nil {
			e.goPanicf("key is nil")
		}
		en := e.storeFind(ref, e.fullKey(ref, k))
		if en == nil {
			return Bytes{Nil: true, Off: c0, Len: c0, Cap: c0}
		}
		return e.copyBytes(en.Val)
	case "Has":
		k := args[0].(Bytes)
		if k.Nil {
			e.goPanicf("key is nil")
		}
		return smt.BoolConst(e.storeFind(ref, e.fullKey(ref, k)) != nil)
	case "Set":
		k := args[0].(Bytes)
		v := args[1].(Bytes)
		if k.Nil || e.branch(smt.Eq(k.Len, c0)) {
			e.goPanicf("key is nil") // types.AssertValidKey
		}
		if v.Nil {
			e.goPanicf("value is nil")
		}
		key := e.fullKey(ref, k)
		ref.KV.Writes++
		e.path.events = append(e.path.events, "store.Set:"+ref.KV.Name)
		val := e.copyBytes(v)
		if en := e.storeFind(ref, key); en != nil {
			en.Val = val
			return nil
		}
		ref.KV.Entries = append(ref.KV.Entries, &kvEntry{Key: key, Val: val})
		return nil
	case "Delete":
		k := args[0].(Bytes)
		if k.Nil {
			e.goPanicf("key is nil")
		}
		key := e.fullKey(ref, k)
		ref.KV.Writes++
		e.path.events = append(e.path.events, "store.Delete:"+ref.KV.Name)
		for i, en := range ref.KV.Entries {
			if e.branch(e.keyEqTerm(en.Key, key)) {
				ref.KV.Entries = append(append([]*kvEntry{}, ref.KV.Entries[:i]...), ref.KV.Entries[i+1:]...)
				return nil
			}
		}
		return nil
	case "Iterator", "ReverseIterator":
		s, en := args[0].(Bytes), args[1].(Bytes)
		if !(s.Nil || (s.Len.IsConst() && s.Len.Val == 0)) || !en.Nil {
			panic(engineErr("store.Iterator with non-trivial bounds not modelled"))
		}
		return e.makeIter(ref, nil)
	}
	panic(engineErr("store method %s", method))
}

func (e *Exec) copyBytes(b Bytes) Bytes {
	if b.Nil || b.Buf == nil {
		return b
	}
	nb := e.newBuf(b.Buf.Fn, b.Buf.Size)
	return Bytes{Buf: nb, Off: b.Off, Len: b.Len, Cap: b.Len, Blob: b.Blob, Segs: b.Segs, Sig: b.Sig}
}

// makeIter selects the entries under ref.Prefix+extra, in a symbolic order.
func (e *Exec) makeIter(ref *StoreRef, extra []KItem) Value {
	pre := append(append([]KItem{}, ref.Prefix...), extra...)
	var sel []*kvEntry
	for _, en := range ref.KV.Entries {
		c, _ := e.keyHasPrefix(en.Key, pre)
		if e.branch(c) {
			sel = append(sel, en)
		}
	}
	// symbolic order: an arbitrary strict total order on keys, but the *same* order every time
	// the store is iterated in this run (the real order is byte-lexicographic, hence fixed)
	if ref.KV.before == nil {
		ref.KV.before = map[[2]*kvEntry]bool{}
	}
	var ordered []*kvEntry
	rem := sel
	for len(rem) > 0 {
		var cands []int
		for i, x := range rem {
			ok := true
			for j, y := range rem {
				if i != j && ref.KV.before[[2]*kvEntry{y, x}] {
					ok = false
					break
				}
			}
			if ok {
				cands = append(cands, i)
			}
		}
		if len(cands) == 0 {
			panic(engineErr("inconsistent iteration order"))
		}
		j := cands[0]
		if len(cands) > 1 && !e.Cfg.FixedIterOrder {
			j = cands[e.forkN(len(cands))]
		}
		for i, y := range rem {
			if i != j {
				ref.KV.before[[2]*kvEntry{rem[j], y}] = true
			}
		}
		ordered = append(ordered, rem[j])
		rem = append(append([]*kvEntry{}, rem[:j]...), rem[j+1:]...)
	}
	if len(sel) > 1 {
		e.Notes["store iteration: order is an an arbitrary strict order, fixed for the run (the real order is byte-lexicographic; results that depend on which order it is are outside the claim)"] = true
	}
	it := &iterData{ref: &StoreRef{KV: ref.KV, Prefix: ref.Prefix}, entries: ordered}
	return Iface{Typ: storeMarkerType, Val: Opaque{Kind: "iter", Data: it}}
}

func (e *Exec) iterMethod(o Opaque, method string, args []Value) Value {
	it := o.Data.(*iterData)
	switch method {
	case "Valid":
		return smt.BoolConst(it.pos < len(it.entries))
	case "Next":
		if it.pos >= len(it.entries) {
			e.goPanicf("iterator Next on invalid iterator")
		}
		it.pos++
		return nil
	case "Key":
		if it.pos >= len(it.entries) {
			e.goPanicf("iterator Key on invalid iterator")
		}
		_, rest := e.keyHasPrefix(it.entries[it.pos].Key, it.ref.Prefix)
		return e.itemsToBytes(rest)
	case "Value":
		if it.pos >= len(it.entries) {
			e.goPanicf("iterator Value on invalid iterator")
		}
		return e.copyBytes(it.entries[it.pos].Val)
	case "Close":
		return nilErr()
	case "Error":
		return nilErr()
	}
	panic(engineErr("iterator method %s", method))
}

package symex

import (
	"go/types"
	"strings"

	"golang.org/x/tools/go/ssa"

	"verif/engine/smt"
)

// Stubs used by the upgrade-configuration check (C19).

func (e *Exec) storeKeyMap(fn *ssa.Function, args []Value) Value {
	names := args[0].(Slice)
	mt := fn.Signature.Results().At(0).Type().Underlying().(*types.Map)
	m := &MapObj{KT: mt.Key(), VT: mt.Elem()}
	for i := 0; i < names.Len; i++ {
		n := names.Arr.Val.(*Array).Elems[names.Off+i].(Str)
		cs, ok := strView(n).concrete()
		if !ok {
			panic(engineErr("store key names must be constants"))
		}
		if cs == "" {
			e.goPanicf("empty key name not allowed")
		}
		for _, k := range m.Keys {
			if ks, _ := strView(k.(Str)).concrete(); ks == cs {
				e.goPanicf("duplicate store key name %s", cs)
			}
		}
		o := e.newObj(nil, Opaque{Kind: "storekey", Data: cs})
		m.Keys = append(m.Keys, n)
		m.Vals = append(m.Vals, Ptr{Obj: o})
	}
	return m
}

func init() {
	for _, f := range []string{"NewKVStoreKeys", "NewTransientStoreKeys", "NewMemoryStoreKeys"} {
		stubs["github.com/cosmos/cosmos-sdk/types."+f] = func(e *Exec, fn *ssa.Function, args []Value) Value {
			return e.storeKeyMap(fn, args)
		}
	}
	stubs["(github.com/cosmos/cosmos-sdk/types/module.Manager).RunMigrations"] = func(e *Exec, fn *ssa.Function, args []Value) Value {
		e.path.events = append(e.path.events, "RunMigrations")
		e.Notes["stub module.Manager.RunMigrations: returns the version map it was given; does not touch the aol/did/pnft/burn stores (it holds no reference to their keys)"] = true
		// the resulting version map: the given one plus a marker entry, so that a handler
		// that drops the result of RunMigrations is distinguishable
		in, _ := args[3].(*MapObj)
		out := &MapObj{}
		if in != nil {
			out = &MapObj{KT: in.KT, VT: in.VT, Keys: append([]Value{}, in.Keys...), Vals: append([]Value{}, in.Vals...)}
		} else {
			mt := fn.Signature.Results().At(0).Type().Underlying().(*types.Map)
			out = &MapObj{KT: mt.Key(), VT: mt.Elem()}
		}
		out.Keys = append(out.Keys, constStr("verif:migrated"))
		out.Vals = append(out.Vals, c1)
		return Tuple{out, nilErr()}
	}
	extraIntrinsics["vFixedMapOrder"] = func(e *Exec, fn *ssa.Function, args []Value) Value {
		e.path.extra["fixedMapOrder"] = true
		return nil
	}
	extraIntrinsics["vEventCount"] = func(e *Exec, fn *ssa.Function, args []Value) Value {
		name := e.mustConstString(args[0], "event name")
		n := 0
		for _, ev := range e.path.events {
			if ev == name {
				n++
			}
		}
		return c64(n)
	}
}

// ibcPattern: calls into ibc-go from upgrade handlers are opaque no-ops.
func (e *Exec) ibcPattern(fn *ssa.Function, name string) (Value, bool) {
	if strings.Contains(name, "github.com/cosmos/ibc-go/") {
		e.Notes["stub ibc-go call "+name+": opaque, does not touch the custom-module stores"] = true
		e.path.events = append(e.path.events, "ibc-call")
		res := fn.Signature.Results()
		switch res.Len() {
		case 0:
			return nil, true
		case 1:
			return e.zero(res.At(0).Type()), true
		}
		t := make(Tuple, res.Len())
		for i := range t {
			t[i] = e.zero(res.At(i).Type())
		}
		return t, true
	}
	return nil, false
}

var _ = smt.True

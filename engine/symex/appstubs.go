package symex

import (
	"fmt"
	"go/types"
	"strings"

	"golang.org/x/tools/go/ssa"

	"verif/engine/smt"
)

// Stubs used by the upgrade-configuration check (C19).

func (e *Exec) storeKeyMap(fn *ssa.Function, args []Value) Value {
	names := args[0].(Slice)
	mt := fn.Signature.Results().At(0).Type().Underlying().(*types.Map)
	m := &MapObj{KT: mt.Key(), VT: mt.Elem()}
	for i := 0; i < names.Len; i++ {
		n := names.Arr.Val.(*Array).Elems[names.Off+i].(Str)
		cs, ok := strView(n).concrete()
		if !ok {
			panic(engineErr("store key names must be constants"))
		}
		if cs == "" {
			e.goPanicf("empty key name not allowed")
		}
		for _, k := range m.Keys {
			if ks, _ := strView(k.(Str)).concrete(); ks == cs {
				e.goPanicf("duplicate store key name %s", cs)
			}
		}
		o := e.newObj(nil, Opaque{Kind: "storekey", Data: cs})
		m.Keys = append(m.Keys, n)
		m.Vals = append(m.Vals, Ptr{Obj: o})
	}
	return m
}

func init() {
	for _, f := range []string{"NewKVStoreKeys", "NewTransientStoreKeys", "NewMemoryStoreKeys"} {
		stubs["github.com/cosmos/cosmos-sdk/types."+f] = func(e *Exec, fn *ssa.Function, args []Value) Value {
			return e.storeKeyMap(fn, args)
		}
	}
	stubs["(github.com/cosmos/cosmos-sdk/types/module.Manager).RunMigrations"] = func(e *Exec, fn *ssa.Function, args []Value) Value {
		e.path.events = append(e.path.events, "RunMigrations")
		e.Notes["stub module.Manager.RunMigrations: returns the version map it was given; does not touch the aol/did/pnft/burn stores (it holds no reference to their keys)"] = true
		// the resulting version map: the given one plus a marker entry, so that a handler
		// that drops the result of RunMigrations is distinguishable
		in, _ := args[3].(*MapObj)
		out := &MapObj{}
		if in != nil {
			out = &MapObj{KT: in.KT, VT: in.VT, Keys: append([]Value{}, in.Keys...), Vals: append([]Value{}, in.Vals...)}
		} else {
			mt := fn.Signature.Results().At(0).Type().Underlying().(*types.Map)
			out = &MapObj{KT: mt.Key(), VT: mt.Elem()}
		}
		out.Keys = append(out.Keys, constStr("verif:migrated"))
		out.Vals = append(out.Vals, c1)
		return Tuple{out, nilErr()}
	}
	extraIntrinsics["vFixedMapOrder"] = func(e *Exec, fn *ssa.Function, args []Value) Value {
		e.path.extra["fixedMapOrder"] = true
		return nil
	}
	extraIntrinsics["vEventCount"] = func(e *Exec, fn *ssa.Function, args []Value) Value {
		name := e.mustConstString(args[0], "event name")
		n := 0
		for _, ev := range e.path.events {
			if ev == name {
				n++
			}
		}
		return c64(n)
	}
}

// ibcPattern: calls into ibc-go from upgrade handlers are opaque no-ops.
func (e *Exec) ibcPattern(fn *ssa.Function, name string) (Value, bool) {
	if strings.Contains(name, "github.com/cosmos/ibc-go/") {
		e.Notes["stub ibc-go call "+name+": opaque, does not touch the custom-module stores"] = true
		e.path.events = append(e.path.events, "ibc-call")
		res := fn.Signature.Results()
		switch res.Len() {
		case 0:
			return nil, true
		case 1:
			return e.zero(res.At(0).Type()), true
		}
		t := make(Tuple, res.Len())
		for i := range t {
			t[i] = e.zero(res.At(i).Type())
		}
		return t, true
	}
	return nil, false
}

// ---- ante chain wiring (C15): the real (*App).setAnteHandler is executed; the SDK decorator
// constructors run from their source, ChainAnteDecorators / SetAnteHandler record what was installed.

func isAnteConstructor(full string) bool {
	const pre = "github.com/cosmos/cosmos-sdk/x/auth/ante.New"
	return strings.HasPrefix(full, pre) && strings.HasSuffix(full, "Decorator")
}

const defaultFeeChecker = "github.com/cosmos/cosmos-sdk/x/auth/ante.checkTxFeeWithValidatorMinGasPrices"

func init() {
	stubs["(*github.com/cosmos/cosmos-sdk/baseapp.BaseApp).SetAnteHandler"] = func(e *Exec, fn *ssa.Function, args []Value) Value {
		e.path.events = append(e.path.events, "SetAnteHandler")
		if f, ok := args[1].(*Func); !ok || f == nil || f.Stub != "antechain" {
			e.path.events = append(e.path.events, "SetAnteHandler:not-a-chain")
		}
		e.Notes["stub BaseApp.SetAnteHandler: records the installed handler (baseapp runs it before the messages of every transaction - SDK behaviour, assumed)"] = true
		return nil
	}
	stubs["github.com/cosmos/cosmos-sdk/types.ChainAnteDecorators"] = func(e *Exec, fn *ssa.Function, args []Value) Value {
		chain, ok := args[0].(Slice)
		if !ok {
			panic(engineErr("ChainAnteDecorators: unexpected argument"))
		}
		e.Notes["stub sdk.ChainAnteDecorators: records the dynamic type of every decorator in order; the decorators' AnteHandle methods are SDK code (assumed, see ANTE-SIGNERS)"] = true
		for i := 0; i < chain.Len; i++ {
			d, ok := chain.Arr.Val.(*Array).Elems[chain.Off+i].(Iface)
			if !ok || d.Typ == nil {
				e.path.events = append(e.path.events, "ante:nil-decorator")
				continue
			}
			tn := typeString(d.Typ)
			e.path.events = append(e.path.events, "ante:type:"+tn)
			if tn != "github.com/cosmos/cosmos-sdk/x/auth/ante.DeductFeeDecorator" {
				continue
			}
			st, ok1 := d.Typ.Underlying().(*types.Struct)
			sv, ok2 := d.Val.(*Struct)
			if !ok1 || !ok2 {
				if sv2, ok3 := d.Val.(Struct); ok3 {
					sv, ok2 = &sv2, true
				}
			}
			if !ok1 || !ok2 {
				panic(engineErr("DeductFeeDecorator value not inspectable (%T)", d.Val))
			}
			found := false
			for j := 0; j < st.NumFields(); j++ {
				if st.Field(j).Name() != "txFeeChecker" {
					continue
				}
				found = true
				f, _ := sv.Fields[j].(*Func)
				switch {
				case f == nil || (f.Fn == nil && f.Stub == ""):
					e.path.events = append(e.path.events, "ante:feechecker:nil")
				case f.Fn != nil && f.Fn.String() == defaultFeeChecker:
					e.path.events = append(e.path.events, "ante:feechecker:default")
				default:
					name := f.Stub
					if f.Fn != nil {
						name = f.Fn.String()
					}
					// a custom TxFeeChecker decides itself which coins are charged: it is executed in
					// deliver mode on a transaction that declares an arbitrary fee (two denominations)
					e.runCustomFeeChecker(f, name)
				}
			}
			if !found {
				panic(engineErr("DeductFeeDecorator has no txFeeChecker field (SDK version?)"))
			}
		}
		e.path.events = append(e.path.events, fmt.Sprintf("ante:len:%d", chain.Len))
		return &Func{Stub: "antechain"}
	}
}

// runCustomFeeChecker executes a custom ante.TxFeeChecker from its source on (deliver-mode context,
// FeeTx with symbolic fee coins and gas) and records declared and charged coins for vAnteFee*.
func (e *Exec) runCustomFeeChecker(f *Func, name string) {
	if f.Fn == nil {
		panic(engineErr("custom TxFeeChecker %s is not a Go function that can be executed", name))
	}
	e.path.events = append(e.path.events, "ante:feechecker:custom")
	e.Notes["custom TxFeeChecker "+name+": executed from its source in deliver mode (IsCheckTx=false) on a FeeTx declaring arbitrary amounts of two denominations (\"aaa\", \"umed\") and arbitrary gas; Int.QuoRaw is over-approximated (any value <= dividend; only the tx priority depends on it)"] = true
	declared := &coinsVal{Amt: [2]*smt.Term{e.inputSym("fee_aaa"), e.inputSym("fee_umed")}}
	gas := e.inputSym("gas")
	tx := Iface{Typ: storeMarkerType, Val: Opaque{Kind: "feetx", Data: &feeTxData{Fee: declared, Gas: gas}}}
	ctx := Opaque{Kind: "ctx", Data: &CtxData{Name: "ante-deliver"}}
	res, ok := e.callFn(f.Fn, []Value{ctx, tx}, f.Bindings, nil).(Tuple)
	if !ok || len(res) != 3 {
		panic(engineErr("custom TxFeeChecker %s: unexpected result shape", name))
	}
	e.path.extra["anteDeclared"] = declared
	if !isNilIface(res[2]) {
		e.path.extra["anteRefused"] = true
		return
	}
	switch c := res[0].(type) {
	case Opaque:
		if cv, ok := c.Data.(*coinsVal); ok && c.Kind == "coins" {
			e.path.extra["anteCharged"] = cv
			return
		}
	case Slice:
		if c.Nil || c.Len == 0 {
			e.path.extra["anteCharged"] = &coinsVal{Amt: [2]*smt.Term{c0, c0}}
			return
		}
	}
	panic(engineErr("custom TxFeeChecker %s returns coins in a form that is not modelled (%T)", name, res[0]))
}

type feeTxData struct {
	Fee *coinsVal
	Gas *smt.Term
}

func (e *Exec) inputSym(name string) *smt.Term {
	site := e.siteKey(name)
	t := smt.Var("in:"+site, smt.BV64)
	e.addSite(NondetSite{Key: site, Kind: "u64", Term: t})
	return t
}

func (e *Exec) feeTxMethod(o Opaque, method string) (Value, bool) {
	d := o.Data.(*feeTxData)
	switch method {
	case "GetFee":
		return Opaque{Kind: "coins", Data: d.Fee}, true
	case "GetGas":
		return d.Gas, true
	}
	return nil, false
}

func init() {
	// plain SDK event constructors are executed from their source (an event built from
	// non-deterministic text is then visible to the determinism obligations)
	for _, f := range []string{"NewAttribute", "NewEvent", "(Attribute).ToKVPair"} {
		if f[0] == '(' {
			execFuncs["(github.com/cosmos/cosmos-sdk/types."+f[1:]] = true
		} else {
			execFuncs["github.com/cosmos/cosmos-sdk/types."+f] = true
		}
	}
	for _, m := range []string{"IsCheckTx", "IsReCheckTx"} {
		stubs["(github.com/cosmos/cosmos-sdk/types.Context)."+m] = func(e *Exec, fn *ssa.Function, args []Value) Value {
			e.Notes["Context.IsCheckTx / IsReCheckTx: false (block execution; mempool admission is not part of the properties)"] = true
			return smt.False
		}
	}
	stubs["github.com/cosmos/cosmos-sdk/types.NewCoin"] = func(e *Exec, fn *ssa.Function, args []Value) Value {
		if _, ok := args[1].(Opaque); !ok {
			panic(engineErr("sdk.NewCoin with an unmodelled amount"))
		}
		return &Struct{Fields: []Value{args[0], args[1]}}
	}
	stubs["github.com/cosmos/cosmos-sdk/types.NewCoins"] = func(e *Exec, fn *ssa.Function, args []Value) Value {
		sl, ok := args[0].(Slice)
		if !ok {
			panic(engineErr("sdk.NewCoins: unexpected argument"))
		}
		out := &coinsVal{Amt: [2]*smt.Term{c0, c0}}
		seen := [2]bool{}
		for i := 0; i < sl.Len; i++ {
			c, ok := sl.Arr.Val.(*Array).Elems[sl.Off+i].(*Struct)
			if !ok {
				panic(engineErr("sdk.NewCoins: unmodelled coin"))
			}
			dn, ok := strView(c.Fields[0].(Str)).concrete()
			amt, ok2 := c.Fields[1].(Opaque)
			if !ok || !ok2 {
				panic(engineErr("sdk.NewCoins: coin with a symbolic denomination"))
			}
			t, ok3 := amt.Data.(*smt.Term)
			if !ok3 {
				panic(engineErr("sdk.NewCoins: unmodelled amount"))
			}
			d := -1
			for k := range bankDenoms {
				if bankDenoms[k] == dn {
					d = k
				}
			}
			if d < 0 {
				panic(engineErr("sdk.NewCoins: denomination %q is not one of the two modelled ones", dn))
			}
			if seen[d] {
				e.goPanicf("find duplicate denoms")
			}
			seen[d] = true
			out.Amt[d] = t
		}
		return Opaque{Kind: "coins", Data: out}
	}
	stubs["(cosmossdk.io/math.Int).QuoRaw"] = func(e *Exec, fn *ssa.Function, args []Value) Value {
		t, ok := args[0].(Opaque).Data.(*smt.Term)
		d, ok2 := args[1].(*smt.Term)
		if !ok || !ok2 {
			panic(engineErr("math.Int.QuoRaw on an unmodelled value"))
		}
		if e.branch(smt.Eq(d, c0)) {
			e.goPanicf("division by zero")
		}
		q := e.fresh("quo", smt.BV64)
		e.assume(smt.ULe(q, t))
		return Opaque{Kind: "sdkint", Data: q}
	}
	// vAnteFeeOK(): the custom fee checker refused the transaction, or charges exactly the declared coins
	extraIntrinsics["vAnteFeeOK"] = func(e *Exec, fn *ssa.Function, args []Value) Value {
		if r, _ := e.path.extra["anteRefused"].(bool); r {
			return smt.True
		}
		d, ok := e.path.extra["anteDeclared"].(*coinsVal)
		c, ok2 := e.path.extra["anteCharged"].(*coinsVal)
		if !ok || !ok2 {
			return smt.True // default checker: nothing recorded
		}
		return smt.And(smt.Eq(d.Amt[0], c.Amt[0]), smt.Eq(d.Amt[1], c.Amt[1]))
	}
}

var _ = smt.True

package symex

import (
	"fmt"
	"go/types"
	"strings"

	"golang.org/x/tools/go/ssa"

	"verif/engine/smt"
)

// prepareCall evaluates the callee and arguments of a call.
func (e *Exec) prepareCall(fr *frame, c *ssa.CallCommon) (Value, []Value) {
	args := make([]Value, 0, len(c.Args)+1)
	var fnv Value
	if c.IsInvoke() {
		recv := e.operand(fr, c.Value)
		fnv = recv
	} else {
		fnv = e.operand(fr, c.Value)
	}
	for _, a := range c.Args {
		args = append(args, e.operand(fr, a))
	}
	return fnv, args
}

func (e *Exec) doCall(fr *frame, c *ssa.CallCommon, instr *ssa.Call) Value {
	fnv, args := e.prepareCall(fr, c)
	return e.invoke(c, fnv, args, fr)
}

// invoke performs a call given evaluated callee and args.
func (e *Exec) invoke(c *ssa.CallCommon, fnv Value, args []Value, fr *frame) Value {
	if c.IsInvoke() {
		recv, ok := fnv.(Iface)
		if !ok {
			panic(engineErr("invoke on %T", fnv))
		}
		if recv.Typ == nil {
			e.goPanicf("nil pointer dereference (method %s on nil interface)", c.Method.Name())
		}
		return e.invokeMethod(recv, c.Method, args)
	}
	f, ok := fnv.(*Func)
	if !ok {
		panic(engineErr("call of %T", fnv))
	}
	if f == nil {
		e.goPanicf("nil pointer dereference (call of nil func)")
	}
	if f.Stub != "" {
		if strings.HasPrefix(f.Stub, "builtin:") {
			return e.builtin(strings.TrimPrefix(f.Stub, "builtin:"), c, args, fr)
		}
		return e.callStubByName(f.Stub, f.Recv, args, c)
	}
	return e.callFn(f.Fn, args, f.Bindings, c)
}

// invokeMethod dispatches an interface method call on a concrete dynamic type.
func (e *Exec) invokeMethod(recv Iface, m *types.Func, args []Value) Value {
	if o, ok := recv.Val.(Opaque); ok {
		if v, handled := e.opaqueMethod(o, recv, m.Name(), args); handled {
			return v
		}
	}
	ms := e.P.Prog.MethodSets.MethodSet(recv.Typ)
	sel := ms.Lookup(m.Pkg(), m.Name())
	if sel == nil {
		panic(engineErr("method %s not found on %s", m.Name(), typeString(recv.Typ)))
	}
	fn := e.P.Prog.MethodValue(sel)
	if fn == nil {
		panic(engineErr("no SSA for method %s on %s", m.Name(), typeString(recv.Typ)))
	}
	all := append([]Value{recv.Val}, args...)
	return e.callFn(fn, all, nil, nil)
}

// callFn: stub, execute or reject.
func (e *Exec) callFn(fn *ssa.Function, args []Value, bindings []Value, c *ssa.CallCommon) Value {
	name := fn.String()
	if fn.Synthetic != "" && (strings.HasPrefix(fn.Synthetic, "wrapper") || strings.HasPrefix(fn.Synthetic, "bound") || strings.HasPrefix(fn.Synthetic, "thunk")) {
		// wrappers are executed from SSA (they delegate to the real method)
		if fn.Blocks != nil {
			return e.callFunction(fn, args, bindings)
		}
	}
	if o := fn.Origin(); o != nil {
		name = o.String()
	}
	if e.Cfg.Summaries {
		if stub, ok := summaryStubs[name]; ok {
			e.StubsSeen["summary:"+name] = true
			return stub(e, fn, args)
		}
	}
	if stub, ok := stubs[name]; ok {
		e.StubsSeen[name] = true
		return stub(e, fn, args)
	}
	if v, ok := e.patternStub(fn, name, args); ok {
		e.StubsSeen[name] = true
		return v
	}
	if e.shouldExecute(fn) {
		if fn.Pkg != nil {
			fn.Pkg.Build() // idempotent; blocks until a concurrent build has finished
		}
		if fn.Blocks == nil {
			if fn.Blocks == nil {
				panic(engineErr("function %s has no body (external/asm)", name))
			}
		}
		return e.callFunction(fn, args, bindings)
	}
	if e.initMode {
		return e.poisonResult(fn, "unmodelled call "+name+" during package init")
	}
	panic(engineErr("no model for callee %s", name))
}

func (e *Exec) poisonResult(fn *ssa.Function, why string) Value {
	res := fn.Signature.Results()
	switch res.Len() {
	case 0:
		return nil
	case 1:
		return Poison{why}
	}
	t := make(Tuple, res.Len())
	for i := range t {
		t[i] = Poison{why}
	}
	return t
}

func (e *Exec) shouldExecute(fn *ssa.Function) bool {
	pkg := fn.Pkg
	if pkg == nil {
		if o := fn.Origin(); o != nil {
			pkg = o.Pkg
		}
	}
	if pkg == nil {
		// synthetic (wrappers, instantiations): allow if body exists
		return fn.Blocks != nil && fn.Synthetic != ""
	}
	path := pkg.Pkg.Path()
	for _, p := range e.P.ExecPkgs {
		if path == p || strings.HasPrefix(path, p+"/") {
			return true
		}
	}
	full := fn.String()
	if o := fn.Origin(); o != nil {
		full = o.String()
	}
	return execFuncs[full] || isAnteConstructor(full)
}

// ---------------- builtins ----------------

func (e *Exec) builtin(name string, c *ssa.CallCommon, args []Value, fr *frame) Value {
	switch name {
	case "len":
		switch x := args[0].(type) {
		case Str:
			return x.Len
		case Bytes:
			return x.Len
		case Slice:
			return c64(x.Len)
		case *MapObj:
			if x == nil {
				return c0
			}
			return c64(len(x.Keys))
		case *Array:
			return c64(len(x.Elems))
		case ByteArr:
			return c64(x.N)
		case Ptr:
			if at, ok := c.Args[0].Type().Underlying().(*types.Pointer); ok {
				if a, ok := at.Elem().Underlying().(*types.Array); ok {
					return c64(int(a.Len()))
				}
			}
		}
		if o, ok := args[0].(Opaque); ok && o.Kind == "coins" {
			// sdk.Coins used as a slice (range / index): materialise the present denominations
			sl := e.materializeCoins(o, c.Args[0].Type())
			if fr != nil {
				fr.env[c.Args[0]] = sl
			}
			return c64(sl.Len)
		}
		panic(engineErr("len of %T", args[0]))
	case "cap":
		switch x := args[0].(type) {
		case Bytes:
			return x.Cap
		case Slice:
			return c64(x.Cap)
		}
		panic(engineErr("cap of %T", args[0]))
	case "append":
		return e.appendOp(args[0], args[1], c.Args[0].Type())
	case "copy":
		return e.copyOp(args[0], args[1])
	case "delete":
		e.mapDelete(args[0], args[1])
		return nil
	case "panic":
		panic(goPanic{msg: "explicit panic: " + e.describePanic(args[0]), value: args[0]})
	case "recover":
		if len(e.curDeferFrame) > 0 {
			f := e.curDeferFrame[len(e.curDeferFrame)-1]
			if f.panicking != nil && !f.recovered {
				f.recovered = true
				if f.panicking.value != nil {
					return f.panicking.value
				}
				return Iface{Typ: types.Typ[types.String], Val: constStr(f.panicking.msg)}
			}
		}
		return Iface{}
	case "print", "println":
		return nil
	case "ssa:deferstack":
		// the current function's defer stack (only distinguished from "nil" by range-over-func bodies,
		// which are not supported): defers are always pushed on the executing frame
		return Opaque{Kind: "deferstack"}
	case "ssa:wrapnilchk":
		if p, ok := args[0].(Ptr); ok && p.Obj == nil {
			e.goPanicf("value method called using nil pointer")
		}
		return args[0]
	case "min", "max":
		a, b := args[0].(*smt.Term), args[1].(*smt.Term)
		_, signed, _ := intWidth(c.Args[0].Type())
		var lt *smt.Term
		if signed {
			lt = smt.SLt(a, b)
		} else {
			lt = smt.ULt(a, b)
		}
		if name == "min" {
			return smt.Ite(lt, a, b)
		}
		return smt.Ite(lt, b, a)
	}
	panic(engineErr("builtin %s unsupported", name))
}

func (e *Exec) appendOp(dst, src Value, t types.Type) Value {
	if isByteSlice(t) {
		d := dst.(Bytes)
		var sv view
		switch s := src.(type) {
		case Bytes:
			sv = bytesView(s)
		case Str:
			sv = strView(s)
		default:
			panic(engineErr("append src %T", src))
		}
		if sv.Len.IsConst() && sv.Len.Val == 0 {
			return d
		}
		newLen := smt.Add(d.Len, sv.Len)
		if d.Buf != nil && e.branch(smt.ULe(newLen, d.Cap)) {
			// fits: write in place (aliasing the backing array)
			if d.Buf.Pre && !e.initMode {
				e.PreWrites[d.Buf.Name] = true
			}
			d.Buf.Fn = FnCopy{Old: d.Buf.Fn, DOff: smt.Add(d.Off, d.Len), Src: sv.Fn, SOff: sv.Off, N: sv.Len}
			return Bytes{Buf: d.Buf, Off: d.Off, Len: newLen, Cap: d.Cap, Segs: e.appendSegs(d, src)}
		}
		// reallocate; capacity is any value >= newLen (Go's growth policy is unspecified)
		var fn ByteFn = FnZero{}
		if d.Buf != nil {
			fn = bytesView(d).normalized()
		}
		fn = FnCopy{Old: fn, DOff: d.Len, Src: sv.Fn, SOff: sv.Off, N: sv.Len}
		ncap := e.fresh("cap", smt.BV64)
		e.assume(smt.And(smt.ULe(newLen, ncap), smt.ULt(ncap, smt.Const(1<<40, 64))))
		buf := e.newBuf(fn, ncap)
		return Bytes{Buf: buf, Off: c0, Len: newLen, Cap: ncap, Segs: e.appendSegs(d, src)}
	}
	d := dst.(Slice)
	s := src.(Slice)
	if s.Len == 0 {
		return d
	}
	newLen := d.Len + s.Len
	if !d.Nil && d.Arr != nil && newLen <= d.Cap {
		arr := d.Arr.Val.(*Array)
		es := make([]Value, len(arr.Elems))
		copy(es, arr.Elems)
		for i := 0; i < s.Len; i++ {
			es[d.Off+d.Len+i] = s.Arr.Val.(*Array).Elems[s.Off+i]
		}
		if d.Arr.Pre && !e.initMode {
			e.PreWrites[d.Arr.Name] = true
		}
		d.Arr.Val = &Array{Elems: es}
		return Slice{Arr: d.Arr, Off: d.Off, Len: newLen, Cap: d.Cap}
	}
	es := make([]Value, newLen)
	for i := 0; i < d.Len; i++ {
		es[i] = d.Arr.Val.(*Array).Elems[d.Off+i]
	}
	for i := 0; i < s.Len; i++ {
		es[d.Len+i] = s.Arr.Val.(*Array).Elems[s.Off+i]
	}
	et := t.Underlying().(*types.Slice).Elem()
	arr := e.newObj(types.NewArray(et, int64(newLen)), &Array{Elems: es})
	return Slice{Arr: arr, Off: 0, Len: newLen, Cap: newLen}
}

func (e *Exec) copyOp(dst, src Value) Value {
	switch d := dst.(type) {
	case Bytes:
		var sv view
		switch s := src.(type) {
		case Bytes:
			sv = bytesView(s)
		case Str:
			sv = strView(s)
		default:
			panic(engineErr("copy src %T", src))
		}
		n := e.minTerm(d.Len, sv.Len)
		if n.IsConst() && n.Val == 0 {
			return c0
		}
		if d.Buf == nil {
			return c0
		}
		if d.Buf.Pre && !e.initMode {
			e.PreWrites[d.Buf.Name] = true
		}
		d.Buf.Fn = FnCopy{Old: d.Buf.Fn, DOff: d.Off, Src: sv.Fn, SOff: sv.Off, N: n}
		return n
	case Slice:
		s := src.(Slice)
		n := d.Len
		if s.Len < n {
			n = s.Len
		}
		if n == 0 {
			return c0
		}
		arr := d.Arr.Val.(*Array)
		es := make([]Value, len(arr.Elems))
		copy(es, arr.Elems)
		for i := 0; i < n; i++ {
			es[d.Off+i] = s.Arr.Val.(*Array).Elems[s.Off+i]
		}
		d.Arr.Val = &Array{Elems: es}
		return c64(n)
	}
	panic(engineErr("copy dst %T", dst))
}

// ---------------- maps ----------------

func (e *Exec) keyEq(a, b Value, t types.Type) *smt.Term { return e.valueEq(a, b, t) }

func (e *Exec) mapFind(m *MapObj, k Value) int {
	if m == nil {
		return -1
	}
	for i, mk := range m.Keys {
		if e.branch(e.keyEq(mk, k, m.KT)) {
			return i
		}
	}
	return -1
}

func (e *Exec) mapUpdate(mv, k, v Value) {
	m := mv.(*MapObj)
	if m == nil {
		e.goPanicf("assignment to entry in nil map")
	}
	if m.Pre && !e.initMode {
		e.PreWrites[m.Name] = true
	}
	if i := e.mapFind(m, k); i >= 0 {
		m.Vals[i] = v
		return
	}
	m.Keys = append(m.Keys, k)
	m.Vals = append(m.Vals, v)
}

func (e *Exec) mapDelete(mv, k Value) {
	m := mv.(*MapObj)
	if m == nil {
		return
	}
	if i := e.mapFind(m, k); i >= 0 {
		m.Keys = append(append([]Value{}, m.Keys[:i]...), m.Keys[i+1:]...)
		m.Vals = append(append([]Value{}, m.Vals[:i]...), m.Vals[i+1:]...)
	}
}

func (e *Exec) lookup(fr *frame, x *ssa.Lookup) Value {
	base := e.operand(fr, x.X)
	if s, ok := base.(Str); ok {
		idx := smt.SExt(e.operand(fr, x.Index).(*smt.Term), 64)
		e.boundsPanic(smt.Not(smt.ULt(idx, s.Len)), "index out of range (string)")
		return strView(s).at(idx)
	}
	m := base.(*MapObj)
	k := e.operand(fr, x.Index)
	vt := x.X.Type().Underlying().(*types.Map).Elem()
	i := e.mapFind(m, k)
	var v Value
	if i >= 0 {
		v = m.Vals[i]
	} else {
		v = e.zero(vt)
	}
	if x.CommaOk {
		return Tuple{v, smt.BoolConst(i >= 0)}
	}
	return v
}

type mapIter struct {
	m     *MapObj
	order []int
	pos   int
}

type strIter struct {
	s   Str
	pos *smt.Term
}

func (e *Exec) rangeInit(v Value, t types.Type) Value {
	switch x := v.(type) {
	case *MapObj:
		it := &mapIter{m: x}
		if x != nil {
			// symbolic iteration order: fork over permutations
			n := len(x.Keys)
			rem := make([]int, n)
			for i := range rem {
				rem[i] = i
			}
			fixed, _ := e.path.extra["fixedMapOrder"].(bool)
			for len(rem) > 0 {
				j := 0
				if len(rem) > 1 && !fixed {
					j = e.forkN(len(rem))
				}
				it.order = append(it.order, rem[j])
				rem = append(append([]int{}, rem[:j]...), rem[j+1:]...)
			}
			if n > 1 {
				e.Notes["map range: iteration order explored symbolically (all permutations)"] = true
			}
		}
		return Opaque{Kind: "mapiter", Data: it}
	case Str:
		return Opaque{Kind: "striter", Data: &strIter{s: x, pos: c0}}
	}
	panic(engineErr("range over %T", v))
}

func (e *Exec) rangeNext(itv Value, x *ssa.Next) Value {
	o := itv.(Opaque)
	switch it := o.Data.(type) {
	case *mapIter:
		if it.m == nil || it.pos >= len(it.order) {
			zv := func(t types.Type) Value {
				if b, ok := t.(*types.Basic); ok && b.Kind() == types.Invalid {
					return nil
				}
				return e.zero(t)
			}
			return Tuple{smt.False, zv(x.Type().(*types.Tuple).At(1).Type()), zv(x.Type().(*types.Tuple).At(2).Type())}
		}
		i := it.order[it.pos]
		it.pos++
		return Tuple{smt.True, it.m.Keys[i], it.m.Vals[i]}
	case *strIter:
		// ASCII-only string iteration: bytes >= 0x80 are not modelled
		if !e.branch(smt.ULt(it.pos, it.s.Len)) {
			return Tuple{smt.False, c0, smt.Const(0, 32)}
		}
		b := strView(it.s).at(it.pos)
		if e.branch(smt.UGe(b, smt.Const(0x80, 8))) {
			panic(engineErr("range over string with non-ASCII byte not modelled"))
		}
		idx := it.pos
		it.pos = smt.Add(it.pos, c1)
		return Tuple{smt.True, idx, smt.ZExt(b, 32)}
	}
	panic(engineErr("next on %T", o.Data))
}

// ---------------- globals and package init ----------------

func (e *Exec) globalObj(g *ssa.Global) *Obj {
	p := e.path
	if o, ok := p.globals[g]; ok {
		return o
	}
	t := g.Type().(*types.Pointer).Elem()
	o := e.newObj(t, e.zero(t))
	o.Global = true
	o.Pre = true
	if f := e.P.Prog.Fset.File(g.Pos()); f != nil && strings.Contains(f.Name(), "zz_verif") {
		o.Pre = false // harness-owned variable, not repository state
	}
	o.Name = g.String()
	p.globals[g] = o
	if g.Pkg != nil && !p.initDone[g.Pkg] {
		e.runPkgInit(g.Pkg)
	}
	return o
}

// runPkgInit executes the package initialiser in init mode: calls into other
// packages' init are skipped; unmodelled calls yield Poison.
func (e *Exec) runPkgInit(pkg *ssa.Package) {
	p := e.path
	p.initDone[pkg] = true
	pkg.Build()
	initFn := pkg.Func("init")
	if initFn == nil || initFn.Blocks == nil {
		return
	}
	saved := e.initMode
	e.initMode = true
	savedDepth := p.depth
	defer func() {
		e.initMode = saved
		p.depth = savedDepth
		if r := recover(); r != nil {
			switch r.(type) {
			case engineError, goPanic:
				// initialiser not fully modelled: the globals that were not
				// reached stay zero; mark them poisoned lazily
				e.Notes[fmt.Sprintf("package init of %s only partially executed: %v", pkg.Pkg.Path(), r)] = true
			default:
				panic(r)
			}
		}
	}()
	fr := &frame{fn: initFn, env: map[ssa.Value]Value{}, visits: map[*ssa.BasicBlock]int{}}
	e.execInit(fr)
	// mark buffers reachable from globals as pre-existing
	for g, o := range p.globals {
		if g.Pkg == pkg {
			e.markPre(o.Val, o.Name, 0)
		}
	}
}

func (e *Exec) markPre(v Value, name string, depth int) {
	if depth > 6 {
		return
	}
	switch x := v.(type) {
	case *MapObj:
		if x != nil {
			x.Pre = true
			x.Name = name + " (map)"
		}
	case Bytes:
		if x.Buf != nil {
			x.Buf.Pre = true
			x.Buf.Name = name + " (backing array)"
		}
	case Slice:
		if x.Arr != nil {
			x.Arr.Pre = true
			x.Arr.Name = name + " (backing array)"
			e.markPre(x.Arr.Val, name, depth+1)
		}
	case Ptr:
		if x.Obj != nil && !x.Obj.Pre {
			x.Obj.Pre = true
			x.Obj.Name = name + " (pointee)"
			e.markPre(x.Obj.Val, name, depth+1)
		}
	case *Struct:
		for _, f := range x.Fields {
			e.markPre(f, name, depth+1)
		}
	case *Array:
		for _, f := range x.Elems {
			e.markPre(f, name, depth+1)
		}
	}
}

// execInit runs the init function's blocks, tolerating unmodelled pieces.
func (e *Exec) execInit(fr *frame) {
	b := fr.fn.Blocks[0]
	var prev *ssa.BasicBlock
	for steps := 0; steps < 10000; steps++ {
		var next *ssa.BasicBlock
		for _, in := range b.Instrs {
			switch x := in.(type) {
			case *ssa.Phi:
				for i, pb := range b.Preds {
					if pb == prev {
						fr.env[x] = e.operand(fr, x.Edges[i])
					}
				}
			case *ssa.Jump:
				next = b.Succs[0]
			case *ssa.If:
				c, ok := e.operand(fr, x.Cond).(*smt.Term)
				if !ok || !c.IsBoolConst() {
					// init guard loads etc: treat the package as not yet initialised
					next = b.Succs[1]
				} else if c.IsTrue() {
					next = b.Succs[0]
				} else {
					next = b.Succs[1]
				}
			case *ssa.Return:
				return
			case *ssa.Call:
				if f, ok := x.Call.Value.(*ssa.Function); ok && f.Name() == "init" && f.Pkg != fr.fn.Pkg {
					fr.env[x] = nil
					continue
				}
				func() {
					defer func() {
						if r := recover(); r != nil {
							switch r.(type) {
							case engineError, goPanic:
								fr.env[x] = e.poisonFor(x, fmt.Sprint(r))
							default:
								panic(r)
							}
						}
					}()
					fr.env[x] = e.doCall(fr, x.Common(), x)
				}()
			default:
				func() {
					defer func() {
						if r := recover(); r != nil {
							switch r.(type) {
							case engineError, goPanic:
								if v, ok := in.(ssa.Value); ok {
									fr.env[v] = Poison{fmt.Sprint(r)}
								}
							default:
								panic(r)
							}
						}
					}()
					e.execInstr(fr, in)
				}()
			}
			if next != nil {
				break
			}
		}
		if next == nil {
			return
		}
		prev, b = b, next
	}
}

func (e *Exec) poisonFor(x *ssa.Call, why string) Value {
	if tup, ok := x.Type().(*types.Tuple); ok {
		t := make(Tuple, tup.Len())
		for i := range t {
			t[i] = Poison{why}
		}
		return t
	}
	return Poison{why}
}

// minTerm returns min(a,b), simplified when one side provably dominates on
// this path (two cheap queries, no fork).
func (e *Exec) minTerm(a, b *smt.Term) *smt.Term {
	if e.reason == "" {
		e.reason = "min"
		defer func() { e.reason = "" }()
	}
	lt := smt.ULt(a, b)
	if lt.IsTrue() {
		return a
	}
	if lt.IsFalse() {
		return b
	}
	if !e.initMode {
		if e.feasible(lt) == smt.Unsat {
			return b
		}
		if e.feasible(smt.Not(lt)) == smt.Unsat {
			return a
		}
	}
	return smt.Ite(lt, a, b)
}

// appendSegs keeps the structured-key annotation across append.
func (e *Exec) appendSegs(d Bytes, src Value) []KItem {
	sb, ok := src.(Bytes)
	if !ok {
		if d.Segs == nil {
			return nil
		}
		return append(append([]KItem{}, d.Segs...), KItem{V: strView(src.(Str))})
	}
	if d.Segs == nil && sb.Segs == nil {
		return nil
	}
	return append(append([]KItem{}, e.keyItems(d)...), e.keyItems(sb)...)
}

package symex

import (
	"go/types"

	"golang.org/x/tools/go/ssa"

	"verif/engine/smt"
)

// BankModel is the contract model (BANK) of the x/bank keeper as used by
// x/burn, written from cosmos-sdk v0.47.12 x/bank/keeper (subUnlockedCoins,
// addCoins, SendCoinsFromAccountToModule, BurnCoins):
//
//   - balances are per (account, denom) totals with a locked (vesting) part;
//     spendable = total - min(locked, total);
//   - GetAllBalances returns the totals (locked coins included);
//   - a multi-denom send debits the denoms in sorted order and returns on the
//     first denom whose spendable balance is insufficient, leaving the earlier
//     denoms debited; only after all debits the recipient is credited;
//   - BurnCoins debits the module account and the supply.
//
// Two denominations (index 0 sorts before index 1), accounts: 0 = burn
// address, 1 = burn module account. Amounts are 64-bit with a stated bound.
type BankModel struct {
	Total  [2][2]*smt.Term // [account][denom]
	Locked [2]*smt.Term    // burn address only
	Supply [2]*smt.Term
	SendErrEnv *smt.Term
}

// materializeCoins turns the modelled sdk.Coins (two denominations, an absent coin is a zero
// amount) into a slice of Coin structs, forking on which denominations are present.
func (e *Exec) materializeCoins(o Opaque, t types.Type) Slice {
	c := o.Data.(*coinsVal)
	st, ok := t.Underlying().(*types.Slice)
	if !ok {
		panic(engineErr("coins used as %v", t))
	}
	var elems []Value
	for d := 0; d < 2; d++ {
		if e.branch(smt.Ne(c.Amt[d], c0)) {
			elems = append(elems, &Struct{Fields: []Value{constStr(bankDenoms[d]), Opaque{Kind: "sdkint", Data: c.Amt[d]}}})
		}
	}
	arr := e.newObj(types.NewArray(st.Elem(), int64(len(elems))), &Array{Elems: elems})
	return Slice{Arr: arr, Off: 0, Len: len(elems), Cap: len(elems)}
}

// the two modelled denominations, in sorted order (index 0 sorts first)
var bankDenoms = [2]string{"aaa", "umed"}

type coinsVal struct {
	Amt [2]*smt.Term
}

func (e *Exec) bank() *BankModel {
	if e.path.bank == nil {
		panic(engineErr("bank model used before vBankInit"))
	}
	return e.path.bank
}

// bankFor: the bank state seen through a context (a cache context has its own branch).
func (e *Exec) bankFor(ctx Value) *BankModel {
	if co, ok := ctx.(Opaque); ok {
		if cd, ok := co.Data.(*CtxData); ok && cd != nil && cd.Bank != nil {
			return cd.Bank
		}
	}
	return e.bank()
}

func (b *BankModel) clone() *BankModel {
	c := *b
	return &c
}

func spendable(total, locked *smt.Term) *smt.Term {
	return smt.Ite(smt.ULt(locked, total), smt.Sub(total, locked), c0)
}

func init() {
	// vBankInit(): arbitrary bank state (symbolic totals, locked amounts, supply)
	extraIntrinsics["vBankInit"] = func(e *Exec, fn *ssa.Function, args []Value) Value {
		b := &BankModel{}
		mk := func(site string) *smt.Term {
			k := e.siteKey(site)
			t := smt.Var("in:"+k, smt.BV64)
			e.addSite(NondetSite{Key: k, Kind: "u64", Term: t})
			return t
		}
		for d := 0; d < 2; d++ {
			b.Total[0][d] = mk("burnTotal")
			b.Locked[d] = mk("burnLocked")
			b.Total[1][d] = mk("moduleTotal")
			rest := mk("restOfSupply")
			// any 64-bit amounts whose sum (the total supply of the denomination) fits in 64 bits
			s1 := smt.Add(b.Total[0][d], b.Total[1][d])
			b.Supply[d] = smt.Add(s1, rest)
			e.assume(smt.And(smt.ULe(b.Total[0][d], s1), smt.ULe(s1, b.Supply[d])))
		}
		e.path.bank = b
		e.Notes["BANK contract model: 2 denominations, burn address + burn module account, arbitrary 64-bit amounts with a total supply below 2^64 per denomination; multi-denom sends debit in denom order and stop at the first insufficient spendable balance (cosmos-sdk v0.47.12 subUnlockedCoins)"] = true
		return nil
	}
	get := func(name string, f func(b *BankModel, d int) *smt.Term) {
		extraIntrinsics[name] = func(e *Exec, fn *ssa.Function, args []Value) Value {
			d := e.mustConstInt(args[0], "denom index")
			return f(e.bank(), d)
		}
	}
	get("vBankBurnTotal", func(b *BankModel, d int) *smt.Term { return b.Total[0][d] })
	get("vBankBurnSpendable", func(b *BankModel, d int) *smt.Term { return spendable(b.Total[0][d], b.Locked[d]) })
	get("vBankModuleTotal", func(b *BankModel, d int) *smt.Term { return b.Total[1][d] })
	get("vBankSupply", func(b *BankModel, d int) *smt.Term { return b.Supply[d] })
	extraIntrinsics["vBankSupplyInvariantHolds"] = func(e *Exec, fn *ssa.Function, args []Value) Value {
		// supply - (modelled balances) is the unmodelled remainder; it must not change:
		// the harness compares before/after through vBankRest
		return smt.True
	}
	get("vBankRest", func(b *BankModel, d int) *smt.Term {
		return smt.Sub(b.Supply[d], smt.Add(b.Total[0][d], b.Total[1][d]))
	})
	stubs["(github.com/cosmos/cosmos-sdk/types.Coins).Empty"] = func(e *Exec, fn *ssa.Function, args []Value) Value {
		c := args[0].(Opaque).Data.(*coinsVal)
		return smt.And(smt.Eq(c.Amt[0], c0), smt.Eq(c.Amt[1], c0))
	}
	stubs["(github.com/cosmos/cosmos-sdk/types.Coins).AmountOf"] = func(e *Exec, fn *ssa.Function, args []Value) Value {
		c := args[0].(Opaque).Data.(*coinsVal)
		d := strView(args[1].(Str))
		is0 := e.viewEq(d, strView(constStr(bankDenoms[0])))
		is1 := e.viewEq(d, strView(constStr(bankDenoms[1])))
		return Opaque{Kind: "sdkint", Data: smt.Ite(is0, c.Amt[0], smt.Ite(is1, c.Amt[1], c0))}
	}
	stubs["(github.com/cosmos/cosmos-sdk/types.Coins).IsZero"] = stubs["(github.com/cosmos/cosmos-sdk/types.Coins).Empty"]
	stubs["(github.com/cosmos/cosmos-sdk/types.Coins).Len"] = func(e *Exec, fn *ssa.Function, args []Value) Value {
		c := args[0].(Opaque).Data.(*coinsVal)
		one := func(t *smt.Term) *smt.Term { return smt.Ite(smt.Eq(t, c0), c0, c1) }
		return smt.Add(one(c.Amt[0]), one(c.Amt[1]))
	}
	for _, m := range []string{"IsZero", "IsPositive", "IsNegative"} {
		m := m
		stubs["(cosmossdk.io/math.Int)."+m] = func(e *Exec, fn *ssa.Function, args []Value) Value {
			t, ok := args[0].(Opaque).Data.(*smt.Term)
			if !ok {
				panic(engineErr("math.Int.%s on an unmodelled value", m))
			}
			switch m {
			case "IsZero":
				return smt.Eq(t, c0)
			case "IsPositive":
				return smt.Ne(t, c0)
			}
			return smt.False
		}
	}
	intTerm := func(v Value, m string) *smt.Term {
		t, ok := v.(Opaque).Data.(*smt.Term)
		if !ok {
			panic(engineErr("math.Int.%s on an unmodelled value", m))
		}
		return t
	}
	stubs["(cosmossdk.io/math.Int).IsInt64"] = func(e *Exec, fn *ssa.Function, args []Value) Value {
		return smt.ULt(intTerm(args[0], "IsInt64"), smt.Const(1<<63, 64))
	}
	stubs["(cosmossdk.io/math.Int).IsUint64"] = func(e *Exec, fn *ssa.Function, args []Value) Value {
		intTerm(args[0], "IsUint64")
		return smt.True
	}
	stubs["(cosmossdk.io/math.Int).Int64"] = func(e *Exec, fn *ssa.Function, args []Value) Value {
		t := intTerm(args[0], "Int64")
		if e.branch(smt.UGe(t, smt.Const(1<<63, 64))) {
			e.goPanicf("Int64() out of bound")
		}
		return t
	}
	stubs["(cosmossdk.io/math.Int).Uint64"] = func(e *Exec, fn *ssa.Function, args []Value) Value {
		return intTerm(args[0], "Uint64")
	}
	stubs["(cosmossdk.io/math.Int).String"] = func(e *Exec, fn *ssa.Function, args []Value) Value {
		return e.opaqueString("int")
	}
	stubs["(github.com/cosmos/cosmos-sdk/types.Coins).String"] = func(e *Exec, fn *ssa.Function, args []Value) Value {
		return e.opaqueString("coins")
	}
}

func (e *Exec) bankMethod(o Opaque, method string, args []Value) Value {
	b := e.bank()
	if len(args) > 0 {
		b = e.bankFor(args[0])
	}
	e.StubsSeen["bank."+method] = true
	switch method {
	case "GetAllBalances":
		return Opaque{Kind: "coins", Data: &coinsVal{Amt: [2]*smt.Term{b.Total[0][0], b.Total[0][1]}}}
	case "SpendableCoins":
		return Opaque{Kind: "coins", Data: &coinsVal{Amt: [2]*smt.Term{spendable(b.Total[0][0], b.Locked[0]), spendable(b.Total[0][1], b.Locked[1])}}}
	case "SendCoinsFromAccountToModule":
		amt := args[3].(Opaque).Data.(*coinsVal)
		e.path.events = append(e.path.events, "bank.SendCoinsFromAccountToModule")
		for d := 0; d < 2; d++ {
			if !e.branch(smt.UGt(amt.Amt[d], c0)) {
				continue
			}
			sp := spendable(b.Total[0][d], b.Locked[d])
			if e.branch(smt.ULt(sp, amt.Amt[d])) {
				return e.newErr("insufficient funds")
			}
			b.Total[0][d] = smt.Sub(b.Total[0][d], amt.Amt[d])
		}
		for d := 0; d < 2; d++ {
			b.Total[1][d] = smt.Add(b.Total[1][d], amt.Amt[d])
		}
		return nilErr()
	case "BurnCoins":
		amt := args[2].(Opaque).Data.(*coinsVal)
		e.path.events = append(e.path.events, "bank.BurnCoins")
		for d := 0; d < 2; d++ {
			if e.branch(smt.ULt(b.Total[1][d], amt.Amt[d])) {
				return e.newErr("insufficient module funds")
			}
		}
		for d := 0; d < 2; d++ {
			b.Total[1][d] = smt.Sub(b.Total[1][d], amt.Amt[d])
			b.Supply[d] = smt.Sub(b.Supply[d], amt.Amt[d])
		}
		return nilErr()
	case "GetSupply":
		return Opaque{Kind: "coin", Data: nil}
	}
	panic(engineErr("bank method %s not modelled", method))
}

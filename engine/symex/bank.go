package symex

// BankModel is the contract model of the x/bank keeper used by x/burn (C07).
type BankModel struct{}

func (e *Exec) bankMethod(o Opaque, method string, args []Value) Value {
	panic(engineErr("bank method %s not modelled", method))
}

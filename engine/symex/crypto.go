package symex

import (
	"fmt"
	"go/types"

	"golang.org/x/tools/go/ssa"

	"verif/engine/smt"
)

// SigInfo marks a []byte as a signature produced by the harness intrinsic
// vSign: by key Pub over (document, sequence). Cryptography is idealised
// (Dolev-Yao): VerifySignature(key, msg, sig) is true iff sig carries a
// SigInfo whose key and signed content equal key and msg (EUF + correctness).
type SigInfo struct {
	Pub *smt.Term // atom: 33 public key bytes
	Doc Value     // deep copy of the signed *DIDDocument pointee (struct) 
	Seq *smt.Term
	ID  int
}

// deepEq: structural equality of two values of the same Go type (nil slice ≡
// empty slice, as in the proto encoding).
func (e *Exec) deepEq(a, b Value) *smt.Term {
	switch x := a.(type) {
	case *smt.Term:
		return smt.Eq(x, b.(*smt.Term))
	case Str:
		return e.viewEq(strView(x), strView(b.(Str)))
	case Bytes:
		y := b.(Bytes)
		if x.Blob != nil && y.Blob != nil {
			if x.Blob.LenPfx != y.Blob.LenPfx {
				return smt.False
			}
			return e.deepEq(x.Blob.Val, y.Blob.Val)
		}
		if x.Sig != nil || y.Sig != nil {
			if x.Sig != nil && y.Sig != nil {
				return smt.BoolConst(x.Sig.ID == y.Sig.ID)
			}
			return smt.False
		}
		if (x.Blob != nil) != (y.Blob != nil) {
			// a blob against raw bytes: only decidable when one is empty
			return smt.And(smt.Eq(x.Len, c0), smt.Eq(y.Len, c0))
		}
		return e.viewEq(bytesView(x), bytesView(y))
	case Ptr:
		y := b.(Ptr)
		if x.Obj == nil || y.Obj == nil {
			return smt.BoolConst(x.Obj == nil && y.Obj == nil)
		}
		return e.deepEq(getPath(x.Obj.Val, x.Path), getPath(y.Obj.Val, y.Path))
	case Slice:
		y := b.(Slice)
		if x.Len != y.Len {
			return smt.False
		}
		var cs []*smt.Term
		for i := 0; i < x.Len; i++ {
			cs = append(cs, e.deepEq(x.Arr.Val.(*Array).Elems[x.Off+i], y.Arr.Val.(*Array).Elems[y.Off+i]))
		}
		return smt.And(cs...)
	case *Struct:
		y := b.(*Struct)
		var cs []*smt.Term
		for i := range x.Fields {
			cs = append(cs, e.deepEq(x.Fields[i], y.Fields[i]))
		}
		return smt.And(cs...)
	case *Array:
		y := b.(*Array)
		var cs []*smt.Term
		for i := range x.Elems {
			cs = append(cs, e.deepEq(x.Elems[i], y.Elems[i]))
		}
		return smt.And(cs...)
	case Iface:
		y := b.(Iface)
		if x.Typ == nil || y.Typ == nil {
			return smt.BoolConst(x.Typ == nil && y.Typ == nil)
		}
		if !types.Identical(x.Typ, y.Typ) {
			return smt.False
		}
		return e.deepEq(x.Val, y.Val)
	case Opaque:
		y := b.(Opaque)
		if x.Kind == "time" {
			return smt.Eq(x.Data.(*smt.Term), y.Data.(*smt.Term))
		}
		return smt.True
	case ByteArr:
		y := b.(ByteArr)
		return e.viewEq(view{x.Buf.Fn, c0, c64(x.N)}, view{y.Buf.Fn, c0, c64(y.N)})
	case *MapObj:
		panic(engineErr("deepEq on maps"))
	case nil:
		return smt.BoolConst(b == nil)
	}
	panic(engineErr("deepEq on %T", a))
}

func (e *Exec) b58enc(b *smt.Term) *smt.Term {
	s := smt.UF("b58enc", "(Str) Str", smt.StrS, b)
	key := fmt.Sprintf("b58enc:%d", b.ID())
	if _, ok := e.path.extra[key]; !ok {
		e.path.extra[key] = true
		e.addAxiom(smt.Eq(smt.UF("b58dec", "(Str) Str", smt.StrS, s), b))
		e.addAxiom(smt.And(smt.ULe(strlenOf(b), strlenOf(s)), smt.ULe(strlenOf(s), smt.Add(smt.Add(strlenOf(b), strlenOf(b)), c1))))
		e.Notes["stub base58: Encode/Decode as an uninterpreted pair with Decode(Encode(b)) = b; output alphabet is the base58 charset"] = true
	}
	return s
}

func init() {
	stubs["github.com/btcsuite/btcutil/base58.Encode"] = func(e *Exec, fn *ssa.Function, args []Value) Value {
		bv := bytesView(args[0].(Bytes))
		t, ok := bv.wholeAtom()
		if !ok {
			t = e.atomOfView(bv)
		}
		s := e.b58enc(t)
		return Str{Fn: FnAtom{s}, Off: c0, Len: strlenOf(s)}
	}
	stubs["github.com/btcsuite/btcutil/base58.Decode"] = func(e *Exec, fn *ssa.Function, args []Value) Value {
		sv := strView(args[0].(Str))
		t, ok := sv.wholeAtom()
		if !ok {
			if cs, isC := sv.concrete(); isC {
				t = e.literalAtom(cs)
			} else {
				t = e.atomOfView(sv)
			}
		}
		d := smt.UF("b58dec", "(Str) Str", smt.StrS, t)
		e.addAxiom(smt.ULe(strlenOf(d), strlenOf(t)))
		buf := e.newBuf(FnAtom{d}, strlenOf(d))
		return Bytes{Buf: buf, Off: c0, Len: strlenOf(d), Cap: strlenOf(d)}
	}
	stubs["(github.com/cometbft/cometbft/crypto/secp256k1.PubKey).VerifySignature"] = func(e *Exec, fn *ssa.Function, args []Value) Value {
		key := args[0].(Bytes)
		msg := args[1].(Bytes)
		sig := args[2].(Bytes)
		e.Notes["stub secp256k1 VerifySignature (EUF, Dolev-Yao): true iff the signature was produced by vSign with the same 33-byte key over a deep-equal (document, sequence); arbitrary bytes never verify"] = true
		e.path.events = append(e.path.events, "verify-signature")
		if sig.Sig == nil {
			return smt.False
		}
		if msg.Blob == nil {
			panic(engineErr("VerifySignature over bytes that are not a modelled blob"))
		}
		dws, ok := msg.Blob.Val.(*Struct)
		if !ok || len(dws.Fields) < 2 {
			panic(engineErr("VerifySignature: unexpected sign-bytes shape"))
		}
		data, ok := dws.Fields[0].(Bytes)
		if !ok || data.Blob == nil {
			panic(engineErr("VerifySignature: sign bytes do not wrap a document blob"))
		}
		seq := dws.Fields[1].(*smt.Term)
		keyEq := e.viewEq(bytesView(key), view{FnAtom{sig.Sig.Pub}, c0, strlenOf(sig.Sig.Pub)})
		return smt.And(keyEq, smt.Eq(seq, sig.Sig.Seq), e.deepEq(data.Blob.Val, sig.Sig.Doc))
	}
	stubs["(github.com/cometbft/cometbft/crypto/secp256k1.PubKey).Bytes"] = func(e *Exec, fn *ssa.Function, args []Value) Value {
		return args[0]
	}

	// vKeyPair(site) vKey{PubB58 string; Pub []byte; ID int}
	extraIntrinsics["vKeyPair"] = func(e *Exec, fn *ssa.Function, args []Value) Value {
		site := e.siteKey(e.mustConstString(args[0], "key pair site"))
		p := smt.Var("key:"+site, smt.StrS)
		e.assume(smt.Eq(strlenOf(p), c64(33)))
		e.registerAtom(p)
		s := e.b58enc(p)
		e.path.nextObj++
		id := e.path.nextObj
		kt := fn.Signature.Results().At(0).Type()
		v := e.zero(kt).(*Struct)
		fs := append([]Value{}, v.Fields...)
		st := kt.Underlying().(*types.Struct)
		for i := 0; i < st.NumFields(); i++ {
			switch st.Field(i).Name() {
			case "PubB58":
				fs[i] = Str{Fn: FnAtom{s}, Off: c0, Len: strlenOf(s)}
			case "Pub":
				buf := e.newBuf(FnAtom{p}, strlenOf(p))
				fs[i] = Bytes{Buf: buf, Off: c0, Len: strlenOf(p), Cap: strlenOf(p)}
			case "ID":
				fs[i] = c64(id)
			}
		}
		for _, o := range e.keyPairs {
			e.assume(smt.Ne(p, o)) // independently generated key pairs are distinct
		}
		e.keyPairs = append(e.keyPairs, p)
		return &Struct{Fields: fs}
	}
	// vSign(k vKey, doc *DIDDocument, seq uint64) []byte
	extraIntrinsics["vSign"] = func(e *Exec, fn *ssa.Function, args []Value) Value {
		k := args[0].(*Struct)
		var pub *smt.Term
		for _, f := range k.Fields {
			if b, ok := f.(Bytes); ok {
				if t, ok := bytesView(b).wholeAtom(); ok {
					pub = t
				}
			}
		}
		if pub == nil {
			panic(engineErr("vSign: key pair without public key atom"))
		}
		dp := args[1].(Ptr)
		if dp.Obj == nil {
			e.goPanicf("vSign(nil document)")
		}
		doc := e.deepCopy(getPath(dp.Obj.Val, dp.Path), map[*Obj]*Obj{})
		e.path.nextObj++
		si := &SigInfo{Pub: pub, Doc: doc, Seq: args[2].(*smt.Term), ID: e.path.nextObj}
		t := e.fresh("sig", smt.StrS)
		e.assume(smt.And(smt.ULe(c64(64), strlenOf(t)), smt.ULe(strlenOf(t), c64(65))))
		buf := e.newBuf(FnAtom{t}, strlenOf(t))
		return Bytes{Buf: buf, Off: c0, Len: strlenOf(t), Cap: strlenOf(t), Sig: si}
	}
}

func init() {
	extraIntrinsics["vDocEqual"] = func(e *Exec, fn *ssa.Function, args []Value) Value {
		return e.deepEq(args[0], args[1])
	}
	extraIntrinsics["vDocSeqEqual"] = func(e *Exec, fn *ssa.Function, args []Value) Value {
		return e.deepEq(args[0], args[1])
	}
	extraIntrinsics["vB64"] = func(e *Exec, fn *ssa.Function, args []Value) Value {
		sv := strView(args[0].(Str))
		t, ok := sv.wholeAtom()
		if !ok {
			t = e.atomOfView(sv)
		}
		s := smt.UF("b64enc", "(Str) Str", smt.StrS, t)
		e.addAxiom(smt.And(smt.UF("b64ok", "(Str) Bool", smt.Bool, s), smt.Eq(smt.UF("b64dec", "(Str) Str", smt.StrS, s), t)))
		return Str{Fn: FnAtom{s}, Off: c0, Len: strlenOf(s)}
	}
	stubs["(*encoding/base64.Encoding).DecodeString"] = func(e *Exec, fn *ssa.Function, args []Value) Value {
		sv := strView(args[1].(Str))
		t, ok := sv.wholeAtom()
		if !ok {
			if cs, isC := sv.concrete(); isC {
				t = e.literalAtom(cs)
			} else {
				t = e.atomOfView(sv)
			}
		}
		e.Notes["stub base64: DecodeString/EncodeToString as an uninterpreted pair with Decode(Encode(x)) = x"] = true
		if e.branch(smt.UF("b64ok", "(Str) Bool", smt.Bool, t)) {
			d := smt.UF("b64dec", "(Str) Str", smt.StrS, t)
			buf := e.newBuf(FnAtom{d}, strlenOf(d))
			return Tuple{Bytes{Buf: buf, Off: c0, Len: strlenOf(d), Cap: strlenOf(d)}, nilErr()}
		}
		return Tuple{Bytes{Nil: true, Off: c0, Len: c0, Cap: c0}, e.newErr("base64")}
	}
}

func init() {
	// vPickKey(second bool, a, b vKey) vKey: symbolic selection without forking
	extraIntrinsics["vPickKey"] = func(e *Exec, fn *ssa.Function, args []Value) Value {
		c := args[0].(*smt.Term)
		a, b := args[1].(*Struct), args[2].(*Struct)
		fs := make([]Value, len(a.Fields))
		for i := range fs {
			switch x := a.Fields[i].(type) {
			case Str:
				ta, _ := strView(x).wholeAtom()
				tb, _ := strView(b.Fields[i].(Str)).wholeAtom()
				t := smt.Ite(c, tb, ta)
				fs[i] = Str{Fn: FnAtom{t}, Off: c0, Len: strlenOf(t)}
			case Bytes:
				ta, _ := bytesView(x).wholeAtom()
				tb, _ := bytesView(b.Fields[i].(Bytes)).wholeAtom()
				t := smt.Ite(c, tb, ta)
				buf := e.newBuf(FnAtom{t}, strlenOf(t))
				fs[i] = Bytes{Buf: buf, Off: c0, Len: strlenOf(t), Cap: strlenOf(t)}
			case *smt.Term:
				fs[i] = smt.Ite(c, b.Fields[i].(*smt.Term), x)
			default:
				fs[i] = a.Fields[i]
			}
		}
		return &Struct{Fields: fs}
	}
}

package symex

import (
	"fmt"
	"go/types"
	"reflect"
	"strings"

	"golang.org/x/tools/go/ssa"

	"verif/engine/smt"
)

// SigInfo marks a []byte as a signature produced by the harness intrinsic
// vSign: by key Pub over (document, sequence). Cryptography is idealised
// (Dolev-Yao): VerifySignature(key, msg, sig) is true iff sig carries a
// SigInfo whose key and signed content equal key and msg (EUF + correctness).
type SigInfo struct {
	Pub *smt.Term // atom: 33 public key bytes
	Doc Value     // deep copy of the signed *DIDDocument pointee (struct) 
	Seq *smt.Term
	ID  int
	Raw *Blob // when non-nil: the signature is over these bytes (vSignBytes), not over (document, sequence)
}

// deepEq: structural equality of two values of the same Go type (nil slice ≡
// empty slice, as in the proto encoding).
func (e *Exec) deepEq(a, b Value) *smt.Term {
	if a == nil || b == nil {
		return smt.BoolConst(a == nil && b == nil)
	}
	if reflect.TypeOf(a) != reflect.TypeOf(b) {
		return smt.False // different kinds of value never encode equally
	}
	switch x := a.(type) {
	case *smt.Term:
		return smt.Eq(x, b.(*smt.Term))
	case Str:
		eq := e.viewEq(strView(x), strView(b.(Str)))
		if e.jsonEqDepth > 0 {
			// inside JSON text: encoding/json writes every byte that is not valid UTF-8 as U+FFFD
			return smt.Or(eq, e.jsonCoercedEq(strView(x), strView(b.(Str))))
		}
		return eq
	case Bytes:
		y := b.(Bytes)
		if x.Blob != nil && y.Blob != nil {
			if x.Blob.LenPfx != y.Blob.LenPfx || x.Blob.Kind != y.Blob.Kind {
				return smt.False
			}
			if x.Blob.Kind == "json" {
				e.jsonEqDepth++
				defer func() { e.jsonEqDepth-- }()
			}
			return e.deepEq(x.Blob.Val, y.Blob.Val)
		}
		if x.Sig != nil || y.Sig != nil {
			if x.Sig != nil && y.Sig != nil {
				return smt.BoolConst(x.Sig.ID == y.Sig.ID)
			}
			return smt.False
		}
		if (x.Blob != nil) != (y.Blob != nil) {
			// a blob against raw bytes: only decidable when one is empty
			return smt.And(smt.Eq(x.Len, c0), smt.Eq(y.Len, c0))
		}
		return e.viewEq(bytesView(x), bytesView(y))
	case Ptr:
		y := b.(Ptr)
		if x.Obj == nil || y.Obj == nil {
			return smt.BoolConst(x.Obj == nil && y.Obj == nil)
		}
		return e.deepEq(getPath(x.Obj.Val, x.Path), getPath(y.Obj.Val, y.Path))
	case Slice:
		y := b.(Slice)
		if x.Len != y.Len {
			return smt.False
		}
		var cs []*smt.Term
		for i := 0; i < x.Len; i++ {
			cs = append(cs, e.deepEq(x.Arr.Val.(*Array).Elems[x.Off+i], y.Arr.Val.(*Array).Elems[y.Off+i]))
		}
		return smt.And(cs...)
	case *Struct:
		y := b.(*Struct)
		if len(x.Fields) != len(y.Fields) {
			return smt.False
		}
		var cs []*smt.Term
		for i := range x.Fields {
			cs = append(cs, e.deepEq(x.Fields[i], y.Fields[i]))
		}
		return smt.And(cs...)
	case *Array:
		y := b.(*Array)
		var cs []*smt.Term
		for i := range x.Elems {
			cs = append(cs, e.deepEq(x.Elems[i], y.Elems[i]))
		}
		return smt.And(cs...)
	case Iface:
		y := b.(Iface)
		if x.Typ == nil || y.Typ == nil {
			return smt.BoolConst(x.Typ == nil && y.Typ == nil)
		}
		if !types.Identical(x.Typ, y.Typ) {
			return smt.False
		}
		return e.deepEq(x.Val, y.Val)
	case Opaque:
		y := b.(Opaque)
		if x.Kind == "time" || x.Kind == "timelocal" {
			return smt.Eq(x.Data.(*smt.Term), y.Data.(*smt.Term))
		}
		return smt.True
	case ByteArr:
		y := b.(ByteArr)
		return e.viewEq(view{x.Buf.Fn, c0, c64(x.N)}, view{y.Buf.Fn, c0, c64(y.N)})
	case *MapObj:
		panic(engineErr("deepEq on maps"))
	case nil:
		return smt.BoolConst(b == nil)
	}
	panic(engineErr("deepEq on %T", a))
}

// jsonCoercedEq is a sufficient condition for two different Go strings to have the same JSON text:
// equal length (at most jsonCoerceMax bytes) and, position by position, equal bytes or two bytes
// from 0xF8..0xFF. Such a byte is never part of a valid UTF-8 sequence in any context, the decoder
// consumes exactly that byte and encoding/json (and amino-JSON, which uses it for strings) emits
// U+FFFD for it. Other ways of colliding through U+FFFD (truncated sequences, surrogates) are not
// modelled: the model under-approximates collisions, it never invents one.
const jsonCoerceMax = 12

var asciiEncoders = map[string]bool{"bech32enc": true, "b58enc": true, "b64enc": true, "hexenc": true, "fmtuint10": true, "fmtuint16": true}

func (e *Exec) jsonCoercedEq(a, b view) *smt.Term {
	// outputs of bech32 / decimal / base58 / base64 / hex encoders are ASCII by their contract
	for _, v := range []view{a, b} {
		if t, ok := v.wholeAtom(); ok {
			if containsTerm(e.bech32Atoms, t) || containsTerm(e.digitAtoms, t) || (t.Op == "uf" && asciiEncoders[t.Name]) {
				return smt.False
			}
		}
	}
	cs := []*smt.Term{smt.Eq(a.Len, b.Len), smt.ULe(a.Len, c64(jsonCoerceMax))}
	hi := smt.Const(0xF8, 8)
	for i := 0; i < jsonCoerceMax; i++ {
		x, y := a.at(c64(i)), b.at(c64(i))
		cs = append(cs, smt.Implies(smt.ULt(c64(i), a.Len), smt.Or(smt.Eq(x, y), smt.And(smt.UGe(x, hi), smt.UGe(y, hi)))))
	}
	e.Notes["JSON model: strings are encoded injectively except that bytes 0xF8..0xFF are all written as U+FFFD (encoding/json coerces invalid UTF-8); modelled for strings of at most 12 bytes"] = true
	return smt.And(cs...)
}

func (e *Exec) b58enc(b *smt.Term) *smt.Term {
	s := smt.UF("b58enc", "(Str) Str", smt.StrS, b)
	key := fmt.Sprintf("b58enc:%d", b.ID())
	if _, ok := e.path.extra[key]; !ok {
		e.path.extra[key] = true
		e.addAxiom(smt.Eq(smt.UF("b58dec", "(Str) Str", smt.StrS, s), b))
		e.addAxiom(smt.And(smt.ULe(strlenOf(b), strlenOf(s)), smt.ULe(strlenOf(s), smt.Add(smt.Add(strlenOf(b), strlenOf(b)), c1))))
		e.Notes["stub base58: Encode/Decode as an uninterpreted pair with Decode(Encode(b)) = b; output alphabet is the base58 charset"] = true
	}
	return s
}

func init() {
	stubs["github.com/btcsuite/btcutil/base58.Encode"] = func(e *Exec, fn *ssa.Function, args []Value) Value {
		bv := bytesView(args[0].(Bytes))
		t, ok := bv.wholeAtom()
		if !ok {
			t = e.atomOfView(bv)
		}
		s := e.b58enc(t)
		return Str{Fn: FnAtom{s}, Off: c0, Len: strlenOf(s)}
	}
	stubs["github.com/btcsuite/btcutil/base58.Decode"] = func(e *Exec, fn *ssa.Function, args []Value) Value {
		sv := strView(args[0].(Str))
		t, ok := sv.wholeAtom()
		if !ok {
			if cs, isC := sv.concrete(); isC {
				t = e.literalAtom(cs)
			} else {
				t = e.atomOfView(sv)
			}
		}
		d := smt.UF("b58dec", "(Str) Str", smt.StrS, t)
		e.addAxiom(smt.ULe(strlenOf(d), strlenOf(t)))
		buf := e.newBuf(FnAtom{d}, strlenOf(d))
		return Bytes{Buf: buf, Off: c0, Len: strlenOf(d), Cap: strlenOf(d)}
	}
	stubs["(github.com/cometbft/cometbft/crypto/secp256k1.PubKey).VerifySignature"] = func(e *Exec, fn *ssa.Function, args []Value) Value {
		key := args[0].(Bytes)
		msg := args[1].(Bytes)
		sig := args[2].(Bytes)
		e.Notes["stub secp256k1 VerifySignature (EUF, Dolev-Yao): true iff the signature was produced by vSign with the same 33-byte key over a deep-equal (document, sequence); arbitrary bytes never verify"] = true
		e.path.events = append(e.path.events, "verify-signature")
		if sig.Sig == nil {
			return smt.False
		}
		if msg.Blob == nil {
			panic(engineErr("VerifySignature over bytes that are not a modelled blob"))
		}
		keyEq0 := e.viewEq(bytesView(key), view{FnAtom{sig.Sig.Pub}, c0, strlenOf(sig.Sig.Pub)})
		if sig.Sig.Raw != nil {
			// a signature over raw bytes (e.g. the JSON form of a document)
			if sig.Sig.Raw.Kind != msg.Blob.Kind {
				return smt.False
			}
			return smt.And(keyEq0, e.deepEq(msg.Blob.Val, sig.Sig.Raw.Val))
		}
		if msg.Blob.Kind != "" {
			return smt.False // (document, sequence) signatures never verify another encoding
		}
		dws, ok := msg.Blob.Val.(*Struct)
		if !ok || len(dws.Fields) < 2 {
			panic(engineErr("VerifySignature: unexpected sign-bytes shape"))
		}
		data, ok := dws.Fields[0].(Bytes)
		if !ok || data.Blob == nil {
			panic(engineErr("VerifySignature: sign bytes do not wrap a document blob"))
		}
		seq := dws.Fields[1].(*smt.Term)
		keyEq := e.viewEq(bytesView(key), view{FnAtom{sig.Sig.Pub}, c0, strlenOf(sig.Sig.Pub)})
		return smt.And(keyEq, smt.Eq(seq, sig.Sig.Seq), e.deepEq(data.Blob.Val, sig.Sig.Doc))
	}
	stubs["(github.com/cometbft/cometbft/crypto/secp256k1.PubKey).Bytes"] = func(e *Exec, fn *ssa.Function, args []Value) Value {
		return args[0]
	}

	// vKeyPair(site) vKey{PubB58 string; Pub []byte; ID int}
	extraIntrinsics["vKeyPair"] = func(e *Exec, fn *ssa.Function, args []Value) Value {
		site := e.siteKey(e.mustConstString(args[0], "key pair site"))
		p := smt.Var("key:"+site, smt.StrS)
		e.assume(smt.Eq(strlenOf(p), c64(33)))
		e.registerAtomEager(p)
		s := e.b58enc(p)
		e.path.nextObj++
		id := e.path.nextObj
		kt := fn.Signature.Results().At(0).Type()
		v := e.zero(kt).(*Struct)
		fs := append([]Value{}, v.Fields...)
		st := kt.Underlying().(*types.Struct)
		for i := 0; i < st.NumFields(); i++ {
			switch st.Field(i).Name() {
			case "PubB58":
				fs[i] = Str{Fn: FnAtom{s}, Off: c0, Len: strlenOf(s)}
			case "Pub":
				buf := e.newBuf(FnAtom{p}, strlenOf(p))
				fs[i] = Bytes{Buf: buf, Off: c0, Len: strlenOf(p), Cap: strlenOf(p)}
			case "ID":
				fs[i] = c64(id)
			}
		}
		for _, o := range e.keyPairs {
			e.assume(smt.Ne(p, o)) // independently generated key pairs are distinct
		}
		e.keyPairs = append(e.keyPairs, p)
		return &Struct{Fields: fs}
	}
	// vSignBytes(k vKey, msg []byte) []byte: a genuine signature over arbitrary modelled bytes
	extraIntrinsics["vSignBytes"] = func(e *Exec, fn *ssa.Function, args []Value) Value {
		k := args[0].(*Struct)
		var pub *smt.Term
		for _, f := range k.Fields {
			if b, ok := f.(Bytes); ok {
				if t, ok := bytesView(b).wholeAtom(); ok {
					pub = t
				}
			}
		}
		m := args[1].(Bytes)
		if pub == nil || m.Blob == nil {
			panic(engineErr("vSignBytes needs a key pair and modelled (blob) bytes"))
		}
		e.path.nextObj++
		si := &SigInfo{Pub: pub, Raw: m.Blob, ID: e.path.nextObj}
		t := e.fresh("sig", smt.StrS)
		e.assume(smt.And(smt.ULe(c64(64), strlenOf(t)), smt.ULe(strlenOf(t), c64(65))))
		buf := e.newBuf(FnAtom{t}, strlenOf(t))
		return Bytes{Buf: buf, Off: c0, Len: strlenOf(t), Cap: strlenOf(t), Sig: si}
	}
	stubs["github.com/cosmos/cosmos-sdk/types.MustSortJSON"] = func(e *Exec, fn *ssa.Function, args []Value) Value { return args[0] }
	// vSign(k vKey, doc *DIDDocument, seq uint64) []byte
	extraIntrinsics["vSign"] = func(e *Exec, fn *ssa.Function, args []Value) Value {
		k := args[0].(*Struct)
		var pub *smt.Term
		for _, f := range k.Fields {
			if b, ok := f.(Bytes); ok {
				if t, ok := bytesView(b).wholeAtom(); ok {
					pub = t
				}
			}
		}
		if pub == nil {
			panic(engineErr("vSign: key pair without public key atom"))
		}
		dp := args[1].(Ptr)
		if dp.Obj == nil {
			e.goPanicf("vSign(nil document)")
		}
		doc := e.deepCopy(getPath(dp.Obj.Val, dp.Path), map[*Obj]*Obj{})
		e.path.nextObj++
		si := &SigInfo{Pub: pub, Doc: doc, Seq: args[2].(*smt.Term), ID: e.path.nextObj}
		t := e.fresh("sig", smt.StrS)
		e.assume(smt.And(smt.ULe(c64(64), strlenOf(t)), smt.ULe(strlenOf(t), c64(65))))
		buf := e.newBuf(FnAtom{t}, strlenOf(t))
		return Bytes{Buf: buf, Off: c0, Len: strlenOf(t), Cap: strlenOf(t), Sig: si}
	}
}

func init() {
	extraIntrinsics["vDocEqual"] = func(e *Exec, fn *ssa.Function, args []Value) Value {
		return e.deepEq(args[0], args[1])
	}
	extraIntrinsics["vDocSeqEqual"] = func(e *Exec, fn *ssa.Function, args []Value) Value {
		return e.deepEq(args[0], args[1])
	}
	extraIntrinsics["vB64"] = func(e *Exec, fn *ssa.Function, args []Value) Value {
		sv := strView(args[0].(Str))
		t, ok := sv.wholeAtom()
		if !ok {
			t = e.atomOfView(sv)
		}
		s := smt.UF("b64enc", "(Str) Str", smt.StrS, t)
		e.addAxiom(smt.And(smt.UF("b64ok", "(Str) Bool", smt.Bool, s), smt.Eq(smt.UF("b64dec", "(Str) Str", smt.StrS, s), t)))
		return Str{Fn: FnAtom{s}, Off: c0, Len: strlenOf(s)}
	}
	stubs["(*encoding/base64.Encoding).DecodeString"] = func(e *Exec, fn *ssa.Function, args []Value) Value {
		sv := strView(args[1].(Str))
		t, ok := sv.wholeAtom()
		if !ok {
			if cs, isC := sv.concrete(); isC {
				t = e.literalAtom(cs)
			} else {
				t = e.atomOfView(sv)
			}
		}
		e.Notes["stub base64: DecodeString/EncodeToString as an uninterpreted pair with Decode(Encode(x)) = x"] = true
		if e.branch(smt.UF("b64ok", "(Str) Bool", smt.Bool, t)) {
			d := smt.UF("b64dec", "(Str) Str", smt.StrS, t)
			buf := e.newBuf(FnAtom{d}, strlenOf(d))
			return Tuple{Bytes{Buf: buf, Off: c0, Len: strlenOf(d), Cap: strlenOf(d)}, nilErr()}
		}
		return Tuple{Bytes{Nil: true, Off: c0, Len: c0, Cap: c0}, e.newErr("base64")}
	}
}

func init() {
	// vPickKey(second bool, a, b vKey) vKey: symbolic selection without forking
	extraIntrinsics["vPickKey"] = func(e *Exec, fn *ssa.Function, args []Value) Value {
		c := args[0].(*smt.Term)
		a, b := args[1].(*Struct), args[2].(*Struct)
		fs := make([]Value, len(a.Fields))
		for i := range fs {
			switch x := a.Fields[i].(type) {
			case Str:
				ta, _ := strView(x).wholeAtom()
				tb, _ := strView(b.Fields[i].(Str)).wholeAtom()
				t := smt.Ite(c, tb, ta)
				fs[i] = Str{Fn: FnAtom{t}, Off: c0, Len: strlenOf(t)}
			case Bytes:
				ta, _ := bytesView(x).wholeAtom()
				tb, _ := bytesView(b.Fields[i].(Bytes)).wholeAtom()
				t := smt.Ite(c, tb, ta)
				buf := e.newBuf(FnAtom{t}, strlenOf(t))
				fs[i] = Bytes{Buf: buf, Off: c0, Len: strlenOf(t), Cap: strlenOf(t)}
			case *smt.Term:
				fs[i] = smt.Ite(c, b.Fields[i].(*smt.Term), x)
			default:
				fs[i] = a.Fields[i]
			}
		}
		return &Struct{Fields: fs}
	}
}

// ---------------- amino JSON model with custom marshalers (C14) ----------------

// jsonValue builds the model of the JSON encoding of v (of Go type t): a value
// that is an injective function of what the encoder would emit. Types with a
// MarshalJSON method defined in the repository are encoded by *executing* that
// method symbolically; everything else is encoded structurally.
func (e *Exec) jsonValue(v Value, t types.Type, depth int) Value {
	if depth > 8 {
		return v
	}
	if m := e.repoMarshalJSON(t); m != nil {
		recv := v
		if _, isPtrRecv := m.Signature.Recv().Type().(*types.Pointer); isPtrRecv {
			if _, isPtr := t.(*types.Pointer); !isPtr {
				o := e.newObj(t, v)
				recv = Ptr{Obj: o}
			}
		} else if pt, isPtr := t.(*types.Pointer); isPtr {
			p := v.(Ptr)
			if p.Obj == nil {
				return v
			}
			_ = pt
			recv = e.load(p)
		}
		res := e.callFn(m, []Value{recv}, nil, nil).(Tuple)
		return res[0]
	}
	switch u := t.Underlying().(type) {
	case *types.Pointer:
		p := v.(Ptr)
		if p.Obj == nil {
			return v
		}
		inner := e.jsonValue(getPath(p.Obj.Val, p.Path), u.Elem(), depth+1)
		return Ptr{Obj: e.newObj(u.Elem(), inner)}
	case *types.Struct:
		sv, ok := v.(*Struct)
		if !ok {
			return v
		}
		fs := make([]Value, len(sv.Fields))
		for i := range fs {
			fs[i] = e.jsonValue(sv.Fields[i], u.Field(i).Type(), depth+1)
		}
		return &Struct{Fields: fs}
	case *types.Slice:
		if isByte(u.Elem()) {
			return v
		}
		sl, ok := v.(Slice)
		if !ok || sl.Nil || sl.Len == 0 {
			return v
		}
		es := make([]Value, sl.Len)
		for i := 0; i < sl.Len; i++ {
			es[i] = e.jsonValue(sl.Arr.Val.(*Array).Elems[sl.Off+i], u.Elem(), depth+1)
		}
		arr := e.newObj(nil, &Array{Elems: es})
		return Slice{Arr: arr, Off: 0, Len: sl.Len, Cap: sl.Len}
	}
	return v
}

// repoMarshalJSON returns the MarshalJSON method of t if it is hand-written repository code.
func (e *Exec) repoMarshalJSON(t types.Type) *ssa.Function {
	for _, tt := range []types.Type{t, types.NewPointer(t)} {
		if _, isPtrPtr := t.(*types.Pointer); isPtrPtr && tt != t {
			continue
		}
		ms := e.P.Prog.MethodSets.MethodSet(tt)
		for i := 0; i < ms.Len(); i++ {
			if ms.At(i).Obj().Name() != "MarshalJSON" {
				continue
			}
			fn := e.P.Prog.MethodValue(ms.At(i))
			if fn == nil {
				continue
			}
			o := fn
			if fn.Synthetic != "" {
				// wrapper: find the declared method
				if f2, ok := ms.At(i).Obj().(*types.Func); ok {
					if d := e.P.Prog.FuncValue(f2); d != nil {
						o = d
					}
				}
			}
			file := ""
			if f := e.P.Prog.Fset.File(o.Pos()); f != nil {
				file = f.Name()
			}
			if o.Pkg != nil && e.shouldExecute(o) && !strings.HasSuffix(file, ".pb.go") {
				return o
			}
		}
	}
	return nil
}

func (e *Exec) makeJSONBlob(v Value, t types.Type) Bytes {
	val := e.deepCopy(v, map[*Obj]*Obj{})
	if p, ok := val.(Ptr); ok && p.Obj != nil {
		val = getPath(p.Obj.Val, p.Path)
		if pt, ok := t.(*types.Pointer); ok {
			t = pt.Elem()
		}
	}
	val = e.jsonValue(val, t, 0)
	e.path.blobID++
	L := e.fresh("jsonlen", smt.BV64)
	e.assume(smt.And(smt.ULe(c64(2), L), smt.ULe(L, smt.Const(1<<24, 64))))
	bl := &Blob{Typ: t, Val: val, Len: L, ID: e.path.blobID, Kind: "json"}
	buf := e.newBuf(FnAtom{e.blobAtom(bl)}, L)
	return Bytes{Buf: buf, Off: c0, Len: L, Cap: L, Blob: bl}
}

func init() {
	stubs["(*github.com/cosmos/cosmos-sdk/codec.AminoCodec).MustMarshalJSON"] = func(e *Exec, fn *ssa.Function, args []Value) Value {
		iv := args[1].(Iface)
		if iv.Typ == nil {
			e.goPanicf("MustMarshalJSON(nil)")
		}
		e.Notes["stub amino MustMarshalJSON / MustSortJSON / encoding/json.Marshal: the JSON text is an injective function of the encoded value, where fields whose type has a hand-written MarshalJSON are encoded by executing that method; never equal to the protobuf bytes of the same message"] = true
		return e.makeJSONBlob(iv.Val, iv.Typ)
	}
	stubs["encoding/json.Marshal"] = func(e *Exec, fn *ssa.Function, args []Value) Value {
		iv := args[0].(Iface)
		if iv.Typ == nil {
			return Tuple{e.makeJSONBlob(constStr("null"), types.Typ[types.String]), nilErr()}
		}
		return Tuple{e.makeJSONBlob(iv.Val, iv.Typ), nilErr()}
	}
}

func init() {
	// the bare amino codec (codec.LegacyAmino) encodes like the AminoCodec wrapper
	stubs["(*github.com/cosmos/cosmos-sdk/codec.LegacyAmino).MustMarshalJSON"] = func(e *Exec, fn *ssa.Function, args []Value) Value {
		iv := args[1].(Iface)
		if iv.Typ == nil {
			e.goPanicf("MustMarshalJSON(nil)")
		}
		e.Notes["stub amino MustMarshalJSON / MustSortJSON / encoding/json.Marshal: the JSON text is an injective function of the encoded value, where hand-written MarshalJSON methods of the repository are executed"] = true
		return e.makeJSONBlob(iv.Val, iv.Typ)
	}
	stubs["(*github.com/cosmos/cosmos-sdk/codec.LegacyAmino).MarshalJSON"] = func(e *Exec, fn *ssa.Function, args []Value) Value {
		iv := args[1].(Iface)
		if iv.Typ == nil {
			return Tuple{Bytes{Nil: true, Off: c0, Len: c0, Cap: c0}, e.newErr("MarshalJSON(nil)")}
		}
		return Tuple{e.makeJSONBlob(iv.Val, iv.Typ), nilErr()}
	}
}

package symex

import (
	"fmt"
	"go/token"
	"go/types"
	"strings"

	"golang.org/x/tools/go/ssa"

	"verif/engine/smt"
)

var storeMarkerType types.Type = types.NewNamed(types.NewTypeName(token.NoPos, nil, "verifStubObject", nil), types.NewStruct(nil, nil), nil)

// deepCopy copies a value including pointees (fresh objects) and buffers.
func (e *Exec) deepCopy(v Value, seen map[*Obj]*Obj) Value {
	switch x := v.(type) {
	case *Struct:
		fs := make([]Value, len(x.Fields))
		for i, f := range x.Fields {
			fs[i] = e.deepCopy(f, seen)
		}
		return &Struct{Fields: fs}
	case *Array:
		es := make([]Value, len(x.Elems))
		for i, f := range x.Elems {
			es[i] = e.deepCopy(f, seen)
		}
		return &Array{Elems: es}
	case Ptr:
		if x.Obj == nil {
			return x
		}
		if n, ok := seen[x.Obj]; ok {
			return Ptr{Obj: n, Path: x.Path}
		}
		n := e.newObj(x.Obj.Typ, nil)
		seen[x.Obj] = n
		n.Val = e.deepCopy(x.Obj.Val, seen)
		return Ptr{Obj: n, Path: x.Path}
	case Slice:
		if x.Nil || x.Arr == nil {
			return x
		}
		arr := x.Arr.Val.(*Array)
		es := make([]Value, x.Len)
		for i := 0; i < x.Len; i++ {
			es[i] = e.deepCopy(arr.Elems[x.Off+i], seen)
		}
		n := e.newObj(x.Arr.Typ, &Array{Elems: es})
		return Slice{Arr: n, Off: 0, Len: x.Len, Cap: x.Len}
	case Bytes:
		return e.copyBytes(x)
	case ByteArr:
		return ByteArr{Buf: e.newBuf(x.Buf.Fn, x.Buf.Size), N: x.N}
	case Iface:
		if x.Typ == nil {
			return x
		}
		return Iface{Typ: x.Typ, Val: e.deepCopy(x.Val, seen)}
	case *MapObj:
		if x == nil {
			return x
		}
		m := &MapObj{KT: x.KT, VT: x.VT}
		for i := range x.Keys {
			m.Keys = append(m.Keys, e.deepCopy(x.Keys[i], seen))
			m.Vals = append(m.Vals, e.deepCopy(x.Vals[i], seen))
		}
		return m
	}
	return v
}

// isZeroTerm: v is the zero value of its (proto message) type.
func (e *Exec) isZeroTerm(v Value) *smt.Term {
	switch x := v.(type) {
	case *smt.Term:
		if x.Sort.Kind == smt.KBool {
			return smt.Not(x)
		}
		return smt.Eq(x, smt.Const(0, x.Sort.Width))
	case Str:
		return smt.Eq(x.Len, c0)
	case Bytes:
		return smt.Eq(x.Len, c0)
	case Ptr:
		return smt.BoolConst(x.Obj == nil)
	case Slice:
		return smt.BoolConst(x.Len == 0)
	case *Struct:
		var cs []*smt.Term
		for _, f := range x.Fields {
			cs = append(cs, e.isZeroTerm(f))
		}
		return smt.And(cs...)
	case Iface:
		return smt.BoolConst(x.Typ == nil)
	case *MapObj:
		return smt.BoolConst(x == nil || len(x.Keys) == 0)
	case Opaque:
		if x.Kind == "time" || x.Kind == "timelocal" {
			return smt.False // stdtime fields are always encoded
		}
		return smt.True
	}
	return smt.False
}

func (e *Exec) makeBlob(msg Value, lenPfx bool) Bytes {
	iv, ok := msg.(Iface)
	var p Ptr
	var t types.Type
	if ok {
		p, ok = iv.Val.(Ptr)
		if !ok {
			// value receiver types (e.g. JSONStringOrStrings)
			panic(engineErr("marshal of non-pointer %s", typeString(iv.Typ)))
		}
		t = iv.Typ
	} else {
		p = msg.(Ptr)
	}
	if p.Obj == nil {
		e.goPanicf("marshal of nil message")
	}
	val := e.deepCopy(getPath(p.Obj.Val, p.Path), map[*Obj]*Obj{})
	e.path.blobID++
	id := e.path.blobID
	L := e.fresh("bloblen", smt.BV64)
	e.assume(smt.And(smt.ULe(c1, L), smt.ULe(L, smt.Const(1<<24, 64))))
	ln := L
	if !lenPfx {
		ln = smt.Ite(e.isZeroTerm(val), c0, L)
	}
	bl := &Blob{Typ: t, Val: val, LenPfx: lenPfx, Len: ln, ID: id}
	e.Notes["stub codec (CODEC): protobuf Marshal is a boxed copy of the message, Unmarshal∘Marshal = id, len(blob)=0 iff message is the zero value"] = true
	buf := e.newBuf(FnAtom{e.blobAtom(bl)}, ln)
	return Bytes{Buf: buf, Off: c0, Len: ln, Cap: ln, Blob: bl}
}

func (e *Exec) unmarshalInto(bz Value, dst Value, lenPfx bool) Value {
	b := bz.(Bytes)
	var p Ptr
	switch d := dst.(type) {
	case Iface:
		p = d.Val.(Ptr)
	case Ptr:
		p = d
	}
	if p.Obj == nil {
		e.goPanicf("unmarshal into nil")
	}
	if b.Blob == nil {
		if b.Nil || (b.Len.IsConst() && b.Len.Val == 0) {
			if lenPfx {
				return e.newErr("unmarshal: empty length-prefixed input")
			}
			// empty input decodes to the zero message (fields keep their values; callers pass fresh vars)
			return nilErr()
		}
		panic(engineErr("unmarshal of bytes that are not a modelled blob"))
	}
	if b.Blob.LenPfx != lenPfx {
		panic(engineErr("unmarshal: length-prefix mismatch"))
	}
	cur := getPath(p.Obj.Val, p.Path)
	if _, ok := cur.(*Struct); ok {
		if bs, ok := b.Blob.Val.(*Struct); ok {
			if len(bs.Fields) != len(cur.(*Struct).Fields) {
				panic(engineErr("unmarshal: blob of %v into different message type", b.Blob.Typ))
			}
		}
	}
	src := e.deepCopy(b.Blob.Val, map[*Obj]*Obj{})
	e.store(p, e.protoMerge(cur, src))
	return nilErr()
}

// protoMerge models what generated gogoproto Unmarshal does to a destination
// that is not freshly zeroed: fields absent from the wire (proto3 default
// values) keep the destination's old value, and bytes fields reuse the
// destination's backing array (m.F = append(m.F[:0], data...)), so a variable
// reused across Unmarshal calls aliases earlier results.
func (e *Exec) protoMerge(cur, src Value) Value {
	cs, ok1 := cur.(*Struct)
	ss, ok2 := src.(*Struct)
	if !ok1 || !ok2 || len(cs.Fields) != len(ss.Fields) {
		return src
	}
	out := make([]Value, len(ss.Fields))
	for i := range ss.Fields {
		c, sv := cs.Fields[i], ss.Fields[i]
		curZero := e.isZeroTerm(c)
		if curZero.IsTrue() {
			out[i] = sv // fresh destination: plain overwrite
			continue
		}
		switch x := sv.(type) {
		case Bytes:
			cb := c.(Bytes)
			if e.branch(smt.Eq(x.Len, c0)) {
				out[i] = c // absent on the wire: old value stays
				continue
			}
			if cb.Buf != nil && x.Blob == nil && e.branch(smt.ULe(x.Len, cb.Cap)) {
				// append(m.F[:0], data...) writes into the old backing array
				xv := bytesView(x)
				cb.Buf.Fn = FnCopy{Old: cb.Buf.Fn, DOff: cb.Off, Src: xv.Fn, SOff: xv.Off, N: xv.Len}
				out[i] = Bytes{Buf: cb.Buf, Off: cb.Off, Len: x.Len, Cap: cb.Cap}
				e.Notes["CODEC: Unmarshal into a non-fresh destination reuses the backing array of bytes fields and keeps fields that are absent on the wire (gogoproto semantics)"] = true
				continue
			}
			out[i] = sv
		case Str:
			if e.branch(smt.Eq(x.Len, c0)) {
				out[i] = c
			} else {
				out[i] = sv
			}
		case *smt.Term:
			z := e.isZeroTerm(x)
			if e.branch(z) {
				out[i] = c
			} else {
				out[i] = sv
			}
		default:
			out[i] = sv
		}
	}
	return &Struct{Fields: out}
}

func (e *Exec) codecMethod(o Opaque, method string, args []Value) Value {
	switch method {
	case "MustMarshal":
		return e.makeBlob(args[0], false)
	case "Marshal":
		return Tuple{e.makeBlob(args[0], false), nilErr()}
	case "MustMarshalLengthPrefixed":
		return e.makeBlob(args[0], true)
	case "MarshalLengthPrefixed":
		return Tuple{e.makeBlob(args[0], true), nilErr()}
	case "MustUnmarshal":
		if err := e.unmarshalInto(args[0], args[1], false); !isNilIface(err) {
			e.goPanicf("MustUnmarshal failed")
		}
		return nil
	case "Unmarshal":
		return e.unmarshalInto(args[0], args[1], false)
	case "MustUnmarshalLengthPrefixed":
		if err := e.unmarshalInto(args[0], args[1], true); !isNilIface(err) {
			e.goPanicf("MustUnmarshalLengthPrefixed failed")
		}
		return nil
	case "UnmarshalLengthPrefixed":
		return e.unmarshalInto(args[0], args[1], true)
	}
	panic(engineErr("codec method %s not modelled", method))
}

// codecPattern handles generated protobuf methods and Any helpers.
func (e *Exec) codecPattern(fn *ssa.Function, name string, args []Value) (Value, bool) {
	file := ""
	if f := fn.Prog.Fset.File(fn.Pos()); f != nil {
		file = f.Name()
	}
	if strings.HasSuffix(file, ".pb.go") && fn.Signature.Recv() != nil {
		switch fn.Name() {
		case "Marshal":
			return Tuple{e.makeBlob(args[0], false), nilErr()}, true
		case "Size", "XXX_Size":
			b := e.makeBlob(args[0], false)
			e.rememberSize(args[0], b.Len)
			return b.Len, true
		case "Unmarshal":
			return e.unmarshalInto(args[1], args[0], false), true
		case "String":
			return e.opaqueString("protostring"), true
		case "MarshalTo", "MarshalToSizedBuffer":
			// the encoding is written into the caller's buffer: at its end (MarshalToSizedBuffer)
			// or at its start (MarshalTo); its length is the one Size() reported for this message
			b := e.makeBlob(args[0], false)
			if l := e.rememberedSize(args[0]); l != nil {
				e.assume(smt.Eq(b.Len, l))
			}
			dst := args[1].(Bytes)
			if dst.Buf == nil || e.branch(smt.ULt(dst.Len, b.Len)) {
				e.goPanicf("index out of range in %s (buffer shorter than the encoding)", fn.Name())
			}
			bv := bytesView(b)
			doff := dst.Off
			if fn.Name() == "MarshalToSizedBuffer" {
				doff = smt.Sub(smt.Add(dst.Off, dst.Len), b.Len)
			}
			dst.Buf.Fn = FnCopy{Old: dst.Buf.Fn, DOff: doff, Src: bv.Fn, SOff: bv.Off, N: b.Len}
			e.Notes["CODEC: MarshalTo / MarshalToSizedBuffer copy the modelled encoding into the caller's buffer (the copy is plain bytes: it no longer carries the message identity)"] = true
			return Tuple{b.Len, nilErr()}, true
		}
	}
	switch name {
	case "github.com/cosmos/cosmos-sdk/codec/types.NewAnyWithValue":
		iv := args[0].(Iface)
		if iv.Typ == nil {
			return Tuple{Ptr{}, e.newErr("NewAnyWithValue(nil)")}, true
		}
		anyT := fn.Signature.Results().At(0).Type().(*types.Pointer).Elem()
		av := e.zero(anyT).(*Struct)
		fs := append([]Value{}, av.Fields...)
		fs[0] = constStr("/" + protoNameOf(iv.Typ))
		fs[1] = e.makeBlob(iv, false)
		o := e.newObj(anyT, &Struct{Fields: fs})
		return Tuple{Ptr{Obj: o}, nilErr()}, true
	case "(*github.com/cosmos/cosmos-sdk/codec/types.Any).GetValue":
		p := args[0].(Ptr)
		if p.Obj == nil {
			return Bytes{Nil: true, Off: c0, Len: c0, Cap: c0}, true
		}
		return getPath(p.Obj.Val, p.Path).(*Struct).Fields[1], true
	case "(*github.com/cosmos/cosmos-sdk/codec/types.Any).GetTypeUrl":
		p := args[0].(Ptr)
		if p.Obj == nil {
			return constStr(""), true
		}
		return getPath(p.Obj.Val, p.Path).(*Struct).Fields[0], true
	}
	return nil, false
}

func protoNameOf(t types.Type) string {
	if p, ok := t.(*types.Pointer); ok {
		t = p.Elem()
	}
	if n, ok := t.(*types.Named); ok {
		return n.Obj().Pkg().Name() + "." + n.Obj().Name()
	}
	return fmt.Sprint(t)
}


// rememberSize / rememberedSize: Size() and a following MarshalTo* of the same message object
// agree on the length of the encoding.
func (e *Exec) sizeKey(msg Value) *Obj {
	if iv, ok := msg.(Iface); ok {
		msg = iv.Val
	}
	if p, ok := msg.(Ptr); ok {
		return p.Obj
	}
	return nil
}

func (e *Exec) rememberSize(msg Value, l *smt.Term) {
	if o := e.sizeKey(msg); o != nil {
		m, _ := e.path.extra["sizes"].(map[*Obj]*smt.Term)
		if m == nil {
			m = map[*Obj]*smt.Term{}
			e.path.extra["sizes"] = m
		}
		m[o] = l
	}
}

func (e *Exec) rememberedSize(msg Value) *smt.Term {
	if o := e.sizeKey(msg); o != nil {
		if m, _ := e.path.extra["sizes"].(map[*Obj]*smt.Term); m != nil {
			return m[o]
		}
	}
	return nil
}

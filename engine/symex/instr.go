package symex

import (
	"fmt"
	"go/constant"
	"go/token"
	"go/types"

	"golang.org/x/tools/go/ssa"

	"verif/engine/smt"
)

type frame struct {
	fn       *ssa.Function
	env      map[ssa.Value]Value
	defers   []deferred
	visits   map[*ssa.BasicBlock]int
	bindings []Value
	panicking *goPanic
	recovered bool
	results  Value
}

type deferred struct {
	call *ssa.CallCommon
	fnv  Value
	args []Value
}

func (e *Exec) goPanicf(format string, args ...interface{}) {
	msg := fmt.Sprintf(format, args...)
	if n := len(e.callStack); n > 0 {
		msg += " in " + e.callStack[n-1]
	}
	panic(goPanic{msg: msg})
}

// callFunction interprets fn with args.
func (e *Exec) callFunction(fn *ssa.Function, args []Value, bindings []Value) Value {
	if fn.Blocks == nil {
		panic(engineErr("no body for function %s", fn.String()))
	}
	p := e.path
	p.depth++
	if p.depth > e.Cfg.MaxDepth {
		panic(engineErr("call depth exceeded at %s", fn.String()))
	}
	e.callStack = append(e.callStack, fn.Name())
	defer func() { p.depth--; e.callStack = e.callStack[:len(e.callStack)-1] }()
	if !e.initMode {
		e.FuncsSeen[fn.String()] = true
	}
	fr := &frame{fn: fn, env: map[ssa.Value]Value{}, visits: map[*ssa.BasicBlock]int{}, bindings: bindings}
	for i, prm := range fn.Params {
		if i < len(args) {
			fr.env[prm] = args[i]
		} else {
			panic(engineErr("missing arg %d for %s", i, fn.String()))
		}
	}
	for i, fv := range fn.FreeVars {
		fr.env[fv] = bindings[i]
	}
	return e.runFrame(fr)
}

func (e *Exec) runFrame(fr *frame) (ret Value) {
	// Go-level panics: run deferred calls, support recover().
	defer func() {
		if r := recover(); r != nil {
			gp, ok := r.(goPanic)
			if !ok {
				panic(r)
			}
			fr.panicking = &gp
			e.runDefers(fr)
			if fr.recovered {
				// function returns normally with named results (via Recover block)
				if fr.fn.Recover != nil {
					ret = e.execBlocks(fr, fr.fn.Recover)
					return
				}
				ret = e.zeroResults(fr.fn)
				return
			}
			panic(gp)
		}
	}()
	return e.execBlocks(fr, fr.fn.Blocks[0])
}

func (e *Exec) zeroResults(fn *ssa.Function) Value {
	res := fn.Signature.Results()
	switch res.Len() {
	case 0:
		return nil
	case 1:
		return e.zero(res.At(0).Type())
	}
	t := make(Tuple, res.Len())
	for i := range t {
		t[i] = e.zero(res.At(i).Type())
	}
	return t
}

func (e *Exec) runDefers(fr *frame) {
	for len(fr.defers) > 0 {
		d := fr.defers[len(fr.defers)-1]
		fr.defers = fr.defers[:len(fr.defers)-1]
		e.curDeferFrame = append(e.curDeferFrame, fr)
		e.invoke(d.call, d.fnv, d.args, nil)
		e.curDeferFrame = e.curDeferFrame[:len(e.curDeferFrame)-1]
	}
}

func (e *Exec) execBlocks(fr *frame, b *ssa.BasicBlock) Value {
	var prev *ssa.BasicBlock
	for {
		fr.visits[b]++
		if fr.visits[b] > e.Cfg.MaxBlockVisits {
			// unwinding assertion: this point is feasible (we got here), so the bound is too small
			e.Notes[fmt.Sprintf("unwinding bound %d exceeded in %s block %d", e.Cfg.MaxBlockVisits, fr.fn.String(), b.Index)] = true
			lbl := "unwinding-assertion " + fr.fn.Name()
			st := e.stat(lbl)
			st.Instances++
			st.Unknown++
			e.Unknowns = append(e.Unknowns, CheckResult{Label: lbl, Verdict: "unknown", Decisions: append([]int(nil), e.path.decisions[:e.path.cursor]...)})
			panic(pathEnd{"unwind-bound"})
		}
		// phis first (parallel assignment)
		var phiVals []Value
		var phis []*ssa.Phi
		for _, in := range b.Instrs {
			phi, ok := in.(*ssa.Phi)
			if !ok {
				break
			}
			idx := -1
			for i, pb := range b.Preds {
				if pb == prev {
					idx = i
					break
				}
			}
			if idx < 0 {
				panic(engineErr("phi: no pred"))
			}
			phis = append(phis, phi)
			phiVals = append(phiVals, e.operand(fr, phi.Edges[idx]))
		}
		for i, phi := range phis {
			fr.env[phi] = phiVals[i]
		}
		var next *ssa.BasicBlock
		for _, in := range b.Instrs[len(phis):] {
			e.path.steps++
			if forkStats != nil {
				e.curLoc = fr.fn.Name() + ":" + fr.fn.Prog.Fset.Position(in.Pos()).String()
			}
			if e.path.steps > 2000000 {
				panic(engineErr("step budget exceeded"))
			}
			switch x := in.(type) {
			case *ssa.Jump:
				next = b.Succs[0]
			case *ssa.If:
				c := e.operand(fr, x.Cond).(*smt.Term)
				if e.branch(c) {
					next = b.Succs[0]
				} else {
					next = b.Succs[1]
				}
			case *ssa.Return:
				var rv Value
				switch len(x.Results) {
				case 0:
				case 1:
					rv = e.operand(fr, x.Results[0])
				default:
					t := make(Tuple, len(x.Results))
					for i, r := range x.Results {
						t[i] = e.operand(fr, r)
					}
					rv = t
				}
				if e.anyReleased {
					e.checkReturnsReleased(fr, rv)
				}
				return rv
			case *ssa.Panic:
				v := e.operand(fr, x.X)
				panic(goPanic{msg: "explicit panic: " + e.describePanic(v), value: v})
			default:
				e.execInstr(fr, in)
			}
			if next != nil {
				break
			}
		}
		if next == nil {
			panic(engineErr("block without terminator in %s", fr.fn.String()))
		}
		prev, b = b, next
	}
}

func (e *Exec) describePanic(v Value) string {
	if i, ok := v.(Iface); ok {
		if s, ok := i.Val.(Str); ok {
			if cs, ok := strView(s).concrete(); ok {
				return cs
			}
			return "<string>"
		}
		if o, ok := i.Val.(Opaque); ok && o.Kind == "error" {
			if ed, ok := o.Data.(*ErrData); ok {
				return "error(" + ed.Tag + ")"
			}
		}
		if i.Typ != nil {
			return typeString(i.Typ)
		}
	}
	return "?"
}

// operand evaluates an SSA value.
func (e *Exec) operand(fr *frame, v ssa.Value) Value {
	switch x := v.(type) {
	case *ssa.Const:
		return e.constValue(x)
	case *ssa.Global:
		return Ptr{Obj: e.globalObj(x)}
	case *ssa.Function:
		return &Func{Fn: x}
	case *ssa.Builtin:
		return &Func{Stub: "builtin:" + x.Name()}
	}
	if val, ok := fr.env[v]; ok {
		return val
	}
	panic(engineErr("operand: no value for %s (%T) in %s", v.Name(), v, fr.fn.String()))
}

func (e *Exec) constValue(c *ssa.Const) Value {
	t := c.Type()
	if c.Value == nil {
		return e.zero(t)
	}
	if w, signed, ok := intWidth(t); ok {
		if signed {
			i, _ := constant.Int64Val(constant.ToInt(c.Value))
			return smt.Const(uint64(i), w)
		}
		u, _ := constant.Uint64Val(constant.ToInt(c.Value))
		return smt.Const(u, w)
	}
	if isBool(t) {
		return smt.BoolConst(constant.BoolVal(c.Value))
	}
	if isString(t) {
		return constStr(constant.StringVal(c.Value))
	}
	if b, ok := t.Underlying().(*types.Basic); ok && b.Info()&types.IsFloat != 0 {
		f, _ := constant.Float64Val(c.Value)
		return Opaque{Kind: "float", Data: f}
	}
	panic(engineErr("const of type %v", t))
}

func (e *Exec) newObj(t types.Type, v Value) *Obj {
	e.path.nextObj++
	return &Obj{ID: e.path.nextObj, Typ: t, Val: v}
}

func (e *Exec) load(p Value) Value {
	switch x := p.(type) {
	case Ptr:
		if x.Obj == nil {
			e.goPanicf("nil pointer dereference")
		}
		v := getPath(x.Obj.Val, x.Path)
		if ba, ok := v.(ByteArr); ok {
			nb := e.newBuf(ba.Buf.Fn, ba.Buf.Size)
			return ByteArr{Buf: nb, N: ba.N}
		}
		return v
	case BytePtr:
		return x.Buf.Fn.Read(x.Idx)
	}
	panic(engineErr("load from %T", p))
}

func (e *Exec) store(p Value, v Value) {
	switch x := p.(type) {
	case Ptr:
		if x.Obj == nil {
			e.goPanicf("nil pointer dereference")
		}
		if x.Obj.Pre && !e.initMode {
			e.PreWrites[x.Obj.Name] = true
		}
		if ba, ok := v.(ByteArr); ok {
			// keep the identity of the destination buffer, copy contents
			if old, ok := getPath(x.Obj.Val, x.Path).(ByteArr); ok {
				old.Buf.Fn = ba.Buf.Fn
				return
			}
		}
		x.Obj.Val = setPath(x.Obj.Val, x.Path, v)
		return
	case BytePtr:
		if x.Buf.Pre && !e.initMode {
			e.PreWrites[x.Buf.Name] = true
		}
		x.Buf.Fn = FnWrite{x.Buf.Fn, x.Idx, v.(*smt.Term)}
		return
	}
	panic(engineErr("store to %T", p))
}

func (e *Exec) execInstr(fr *frame, in ssa.Instruction) {
	switch x := in.(type) {
	case *ssa.DebugRef:
		return
	case *ssa.Alloc:
		t := x.Type().(*types.Pointer).Elem()
		fr.env[x] = Ptr{Obj: e.newObj(t, e.zero(t))}
	case *ssa.UnOp:
		fr.env[x] = e.unop(fr, x)
	case *ssa.BinOp:
		fr.env[x] = e.binop(x.Op, x.X.Type(), e.operand(fr, x.X), e.operand(fr, x.Y), x.Y.Type())
	case *ssa.Store:
		e.store(e.operand(fr, x.Addr), e.operand(fr, x.Val))
	case *ssa.FieldAddr:
		p := e.operand(fr, x.X).(Ptr)
		if p.Obj == nil {
			e.goPanicf("nil pointer dereference (field %d of %s)", x.Field, typeString(x.X.Type()))
		}
		fr.env[x] = Ptr{Obj: p.Obj, Path: appendPath(p.Path, x.Field)}
	case *ssa.Field:
		s := e.operand(fr, x.X).(*Struct)
		fr.env[x] = s.Fields[x.Field]
	case *ssa.IndexAddr:
		fr.env[x] = e.indexAddr(fr, x)
	case *ssa.Index:
		fr.env[x] = e.index(fr, x)
	case *ssa.Call:
		fr.env[x] = e.doCall(fr, x.Common(), x)
	case *ssa.Defer:
		fnv, args := e.prepareCall(fr, x.Common())
		fr.defers = append(fr.defers, deferred{call: x.Common(), fnv: fnv, args: args})
	case *ssa.RunDefers:
		e.runDefers(fr)
	case *ssa.Go:
		panic(engineErr("go statement in %s (concurrency hazard)", fr.fn.String()))
	case *ssa.Extract:
		t := e.operand(fr, x.Tuple).(Tuple)
		fr.env[x] = t[x.Index]
	case *ssa.MakeInterface:
		fr.env[x] = Iface{Typ: x.X.Type(), Val: e.operand(fr, x.X)}
	case *ssa.ChangeInterface:
		fr.env[x] = e.operand(fr, x.X)
	case *ssa.ChangeType:
		fr.env[x] = e.operand(fr, x.X)
	case *ssa.Convert:
		fr.env[x] = e.convert(e.operand(fr, x.X), x.X.Type(), x.Type())
	case *ssa.Slice:
		fr.env[x] = e.sliceOp(fr, x)
	case *ssa.MakeSlice:
		fr.env[x] = e.makeSlice(x.Type(), e.operand(fr, x.Len).(*smt.Term), e.operand(fr, x.Cap).(*smt.Term))
	case *ssa.TypeAssert:
		fr.env[x] = e.typeAssert(fr, x)
	case *ssa.MakeClosure:
		bs := make([]Value, len(x.Bindings))
		for i, b := range x.Bindings {
			bs[i] = e.operand(fr, b)
		}
		fr.env[x] = &Func{Fn: x.Fn.(*ssa.Function), Bindings: bs}
	case *ssa.MakeMap:
		mt := x.Type().Underlying().(*types.Map)
		fr.env[x] = &MapObj{KT: mt.Key(), VT: mt.Elem()}
	case *ssa.MapUpdate:
		e.mapUpdate(e.operand(fr, x.Map), e.operand(fr, x.Key), e.operand(fr, x.Value))
	case *ssa.Lookup:
		fr.env[x] = e.lookup(fr, x)
	case *ssa.Range:
		fr.env[x] = e.rangeInit(e.operand(fr, x.X), x.X.Type())
	case *ssa.Next:
		fr.env[x] = e.rangeNext(e.operand(fr, x.Iter), x)
	case *ssa.SliceToArrayPointer:
		panic(engineErr("SliceToArrayPointer unsupported"))
	default:
		panic(engineErr("unsupported instruction %T in %s", in, fr.fn.String()))
	}
}

func (e *Exec) unop(fr *frame, x *ssa.UnOp) Value {
	v := e.operand(fr, x.X)
	switch x.Op {
	case token.MUL:
		return e.load(v)
	case token.NOT:
		return smt.Not(v.(*smt.Term))
	case token.SUB:
		return smt.Neg(v.(*smt.Term))
	case token.XOR:
		return smt.BNot(v.(*smt.Term))
	case token.ARROW:
		panic(engineErr("channel receive unsupported"))
	}
	panic(engineErr("unop %v", x.Op))
}

func (e *Exec) binop(op token.Token, xt types.Type, a, b Value, yt types.Type) Value {
	// strings
	if sa, ok := a.(Str); ok {
		sb := b.(Str)
		switch op {
		case token.ADD:
			return e.concat(sa, sb)
		case token.EQL:
			return e.viewEq(strView(sa), strView(sb))
		case token.NEQ:
			return smt.Not(e.viewEq(strView(sa), strView(sb)))
		case token.LSS, token.LEQ, token.GTR, token.GEQ:
			// lexicographic order is not encoded: an arbitrary (fresh) outcome per comparison
			e.Notes["string ordering comparison: outcome modelled as an arbitrary boolean (order-dependent results are outside the claim)"] = true
			return e.fresh("strcmp", smt.Bool)
		}
		panic(engineErr("string binop %v unsupported", op))
	}
	if ta, ok := a.(*smt.Term); ok {
		tb := b.(*smt.Term)
		if ta.Sort.Kind == smt.KBool {
			switch op {
			case token.EQL:
				return smt.Eq(ta, tb)
			case token.NEQ:
				return smt.Ne(ta, tb)
			case token.AND, token.LAND:
				return smt.And(ta, tb)
			case token.OR, token.LOR:
				return smt.Or(ta, tb)
			}
			panic(engineErr("bool binop %v", op))
		}
		_, signed, _ := intWidth(xt)
		w := ta.Sort.Width
		if op == token.SHL || op == token.SHR {
			// normalise the shift count to the operand width
			cnt := tb
			if cnt.Sort.Width > w {
				big := smt.UGe(cnt, smt.Const(uint64(w), cnt.Sort.Width))
				c2 := smt.Extract(w-1, 0, cnt)
				var sh *smt.Term
				if op == token.SHL {
					sh = smt.Shl(ta, c2)
				} else if signed {
					sh = smt.AShr(ta, c2)
				} else {
					sh = smt.LShr(ta, c2)
				}
				var over *smt.Term
				if op == token.SHR && signed {
					over = smt.AShr(ta, smt.Const(uint64(w-1), w))
				} else {
					over = smt.Const(0, w)
				}
				return smt.Ite(big, over, sh)
			}
			cnt = smt.ZExt(cnt, w)
			if op == token.SHL {
				return smt.Shl(ta, cnt)
			}
			if signed {
				return smt.AShr(ta, cnt)
			}
			return smt.LShr(ta, cnt)
		}
		if ta.Sort != tb.Sort {
			panic(engineErr("binop %v width mismatch %v %v", op, ta.Sort, tb.Sort))
		}
		switch op {
		case token.ADD:
			return smt.Add(ta, tb)
		case token.SUB:
			return smt.Sub(ta, tb)
		case token.MUL:
			return smt.Mul(ta, tb)
		case token.QUO:
			if e.branch(smt.Eq(tb, smt.Const(0, w))) {
				e.goPanicf("integer divide by zero")
			}
			if signed {
				return smt.SDiv(ta, tb)
			}
			return smt.UDiv(ta, tb)
		case token.REM:
			if e.branch(smt.Eq(tb, smt.Const(0, w))) {
				e.goPanicf("integer divide by zero")
			}
			if signed {
				return smt.SRem(ta, tb)
			}
			return smt.URem(ta, tb)
		case token.AND:
			return smt.BAnd(ta, tb)
		case token.OR:
			return smt.BOr(ta, tb)
		case token.XOR:
			return smt.BXor(ta, tb)
		case token.AND_NOT:
			return smt.BAnd(ta, smt.BNot(tb))
		case token.EQL:
			return smt.Eq(ta, tb)
		case token.NEQ:
			return smt.Ne(ta, tb)
		case token.LSS:
			if signed {
				return smt.SLt(ta, tb)
			}
			return smt.ULt(ta, tb)
		case token.LEQ:
			if signed {
				return smt.SLe(ta, tb)
			}
			return smt.ULe(ta, tb)
		case token.GTR:
			if signed {
				return smt.SGt(ta, tb)
			}
			return smt.UGt(ta, tb)
		case token.GEQ:
			if signed {
				return smt.SGe(ta, tb)
			}
			return smt.UGe(ta, tb)
		}
		panic(engineErr("int binop %v", op))
	}
	// comparisons of other kinds
	switch op {
	case token.EQL:
		return e.valueEq(a, b, xt)
	case token.NEQ:
		return smt.Not(e.valueEq(a, b, xt))
	}
	panic(engineErr("binop %v on %T", op, a))
}

// valueEq implements Go == on non-scalar values.
func (e *Exec) valueEq(a, b Value, t types.Type) *smt.Term {
	switch x := a.(type) {
	case *smt.Term:
		return smt.Eq(x, b.(*smt.Term))
	case Str:
		return e.viewEq(strView(x), strView(b.(Str)))
	case Ptr:
		y, ok := b.(Ptr)
		if !ok {
			if _, isBP := b.(BytePtr); isBP {
				return smt.False
			}
			panic(engineErr("ptr compare with %T", b))
		}
		if x.Obj != y.Obj || len(x.Path) != len(y.Path) {
			return smt.False
		}
		for i := range x.Path {
			if x.Path[i] != y.Path[i] {
				return smt.False
			}
		}
		return smt.True
	case Iface:
		y := b.(Iface)
		if x.Typ == nil || y.Typ == nil {
			return smt.BoolConst(x.Typ == nil && y.Typ == nil)
		}
		if !types.Identical(x.Typ, y.Typ) {
			return smt.False
		}
		return e.valueEq(x.Val, y.Val, x.Typ)
	case Bytes:
		y := b.(Bytes)
		// only comparison with nil is legal in Go
		if y.Nil && y.Buf == nil {
			return smt.BoolConst(x.Nil)
		}
		if x.Nil && x.Buf == nil {
			return smt.BoolConst(y.Nil)
		}
		panic(engineErr("slice comparison"))
	case Slice:
		y := b.(Slice)
		if y.Nil {
			return smt.BoolConst(x.Nil)
		}
		if x.Nil {
			return smt.BoolConst(y.Nil)
		}
		panic(engineErr("slice comparison"))
	case *MapObj:
		y := b.(*MapObj)
		if y == nil {
			return smt.BoolConst(x == nil)
		}
		if x == nil {
			return smt.BoolConst(y == nil)
		}
		return smt.BoolConst(x == y)
	case *Func:
		y := b.(*Func)
		if y == nil {
			return smt.BoolConst(x == nil)
		}
		if x == nil {
			return smt.BoolConst(y == nil)
		}
		panic(engineErr("func comparison"))
	case *Struct:
		y := b.(*Struct)
		st := t.Underlying().(*types.Struct)
		cs := []*smt.Term{}
		for i := range x.Fields {
			cs = append(cs, e.valueEq(x.Fields[i], y.Fields[i], st.Field(i).Type()))
		}
		return smt.And(cs...)
	case Opaque:
		y := b.(Opaque)
		switch x.Kind {
		case "time", "timelocal":
			return smt.Eq(x.Data.(*smt.Term), y.Data.(*smt.Term))
		case "error":
			return smt.BoolConst(x.Data == y.Data)
		}
		return smt.BoolConst(x.Data == y.Data)
	}
	panic(engineErr("valueEq on %T", a))
}

func (e *Exec) concat(a, b Str) Str {
	if a.Len.IsConst() && a.Len.Val == 0 {
		return b
	}
	if b.Len.IsConst() && b.Len.Val == 0 {
		return a
	}
	if sa, ok := strView(a).concrete(); ok {
		if sb, ok := strView(b).concrete(); ok {
			return constStr(sa + sb)
		}
	}
	fn := FnCopy{Old: strView(a).normalized(), DOff: a.Len, Src: b.Fn, SOff: b.Off, N: b.Len}
	res := Str{Fn: fn, Off: c0, Len: smt.Add(a.Len, b.Len)}
	if e.path.concats == nil {
		e.path.concats = map[view][]view{}
	}
	e.path.concats[strView(res)] = append(append([]view{}, e.partsOf(strView(a))...), e.partsOf(strView(b))...)
	return res
}

func (e *Exec) convert(v Value, from, to types.Type) Value {
	// integer conversions
	if fw, fsigned, ok := intWidth(from); ok {
		if tw, _, ok := intWidth(to); ok {
			t := v.(*smt.Term)
			if tw == fw {
				return t
			}
			if tw < fw {
				return smt.Extract(tw-1, 0, t)
			}
			if fsigned {
				return e.canon(smt.SExt(t, tw))
			}
			return e.canon(smt.ZExt(t, tw))
		}
		if isString(to) {
			panic(engineErr("string(int) conversion unsupported"))
		}
		if b, ok := to.Underlying().(*types.Basic); ok && b.Info()&types.IsFloat != 0 {
			return Opaque{Kind: "float", Data: v}
		}
	}
	if isString(from) && isByteSlice(to) {
		s := v.(Str)
		buf := e.newBuf(strView(s).normalized(), s.Len)
		return Bytes{Buf: buf, Off: c0, Len: s.Len, Cap: s.Len}
	}
	if isByteSlice(from) && isString(to) {
		b := v.(Bytes)
		if b.Blob != nil {
			return Str{Fn: FnAtom{e.blobAtom(b.Blob)}, Off: c0, Len: b.Len}
		}
		vw := bytesView(b)
		return Str{Fn: vw.Fn, Off: vw.Off, Len: vw.Len}
	}
	if isString(from) && isString(to) {
		return v
	}
	if _, ok := from.Underlying().(*types.Pointer); ok {
		return v // unsafe.Pointer round trips
	}
	if b, ok := from.Underlying().(*types.Basic); ok && b.Kind() == types.UnsafePointer {
		return v
	}
	if types.Identical(from.Underlying(), to.Underlying()) {
		return v
	}
	panic(engineErr("convert %v -> %v unsupported", from, to))
}

func (e *Exec) blobAtom(b *Blob) *smt.Term {
	return smt.Var(fmt.Sprintf("blobatom!%d", b.ID), smt.StrS)
}

func (e *Exec) makeSlice(t types.Type, n, c *smt.Term) Value {
	if isByteSlice(t) {
		if e.branch(smt.Or(smt.SLt(n, c0), smt.SLt(c, n))) {
			e.goPanicf("makeslice: len out of range")
		}
		buf := e.newBuf(FnZero{}, c)
		return Bytes{Buf: buf, Off: c0, Len: n, Cap: c}
	}
	nn := e.concretize(n, "makeslice len")
	cc := e.concretize(c, "makeslice cap")
	if cc < nn {
		cc = nn
	}
	et := t.Underlying().(*types.Slice).Elem()
	es := make([]Value, cc)
	for i := range es {
		es[i] = e.zero(et)
	}
	arr := e.newObj(types.NewArray(et, int64(cc)), &Array{Elems: es})
	return Slice{Arr: arr, Off: 0, Len: nn, Cap: cc}
}

// concretize requires a concrete value (or forks over small ranges).
func (e *Exec) concretize(t *smt.Term, what string) int {
	if t.IsConst() {
		return int(t.SVal())
	}
	// fork over 0..16
	for i := 0; i <= 16; i++ {
		if e.branch(smt.Eq(t, smt.Const(uint64(i), t.Sort.Width))) {
			return i
		}
	}
	panic(engineErr("cannot concretize %s", what))
}

func (e *Exec) boundsPanic(cond *smt.Term, format string, args ...interface{}) {
	if e.reason == "" {
		e.reason = "bounds"
		defer func() { e.reason = "" }()
	}
	// cond = out of range
	if cond.IsFalse() {
		return
	}
	if e.branch(cond) {
		e.goPanicf(format, args...)
	}
}

func (e *Exec) indexAddr(fr *frame, x *ssa.IndexAddr) Value {
	base := e.operand(fr, x.X)
	idx := smt.SExt(e.operand(fr, x.Index).(*smt.Term), 64)
	if _, _, ok := intWidth(x.Index.Type()); ok {
		if _, signed, _ := intWidth(x.Index.Type()); !signed {
			idx = smt.ZExt(e.operand(fr, x.Index).(*smt.Term), 64)
		}
	}
	switch b := base.(type) {
	case Bytes:
		e.boundsPanic(smt.Not(smt.ULt(idx, b.Len)), "index out of range (byte slice)")
		if b.Buf == nil {
			panic(pathEnd{"infeasible"})
		}
		return BytePtr{Buf: b.Buf, Idx: smt.Add(b.Off, idx)}
	case Slice:
		i := e.concretizeIndex(idx, b.Len)
		return Ptr{Obj: b.Arr, Path: []int{b.Off + i}}
	case Ptr: // pointer to array
		if b.Obj == nil {
			e.goPanicf("nil pointer dereference")
		}
		av := getPath(b.Obj.Val, b.Path)
		switch a := av.(type) {
		case ByteArr:
			e.boundsPanic(smt.Not(smt.ULt(idx, c64(a.N))), "index out of range (byte array)")
			return BytePtr{Buf: a.Buf, Idx: idx}
		case *Array:
			i := e.concretizeIndex(idx, len(a.Elems))
			return Ptr{Obj: b.Obj, Path: appendPath(b.Path, i)}
		}
		panic(engineErr("indexAddr on pointer to %T", av))
	}
	panic(engineErr("indexAddr on %T", base))
}

func (e *Exec) concretizeIndex(idx *smt.Term, n int) int {
	if idx.IsConst() {
		i := int(idx.SVal())
		if i < 0 || i >= n {
			e.goPanicf("index out of range [%d] with length %d", i, n)
		}
		return i
	}
	e.boundsPanic(smt.Not(smt.ULt(idx, c64(n))), "index out of range (symbolic) with length %d", n)
	for i := 0; i < n; i++ {
		if e.branch(smt.Eq(idx, c64(i))) {
			return i
		}
	}
	panic(pathEnd{"infeasible"})
}

func (e *Exec) index(fr *frame, x *ssa.Index) Value {
	base := e.operand(fr, x.X)
	idx := smt.ZExt(e.operand(fr, x.Index).(*smt.Term), 64)
	if _, signed, _ := intWidth(x.Index.Type()); signed {
		idx = smt.SExt(e.operand(fr, x.Index).(*smt.Term), 64)
	}
	switch b := base.(type) {
	case Str:
		e.boundsPanic(smt.Not(smt.ULt(idx, b.Len)), "index out of range (string)")
		return strView(b).at(idx)
	case *Array:
		i := e.concretizeIndex(idx, len(b.Elems))
		return b.Elems[i]
	case ByteArr:
		e.boundsPanic(smt.Not(smt.ULt(idx, c64(b.N))), "index out of range (byte array)")
		return b.Buf.Fn.Read(idx)
	}
	panic(engineErr("index on %T", base))
}

func (e *Exec) sliceOp(fr *frame, x *ssa.Slice) Value {
	base := e.operand(fr, x.X)
	get := func(v ssa.Value) *smt.Term {
		if v == nil {
			return nil
		}
		t := e.operand(fr, v).(*smt.Term)
		if _, signed, _ := intWidth(v.Type()); signed {
			return smt.SExt(t, 64)
		}
		return smt.ZExt(t, 64)
	}
	lo, hi, mx := get(x.Low), get(x.High), get(x.Max)
	switch b := base.(type) {
	case Str:
		if lo == nil {
			lo = c0
		}
		if hi == nil {
			hi = b.Len
		}
		e.boundsPanic(smt.Or(smt.UGt(hi, b.Len), smt.UGt(lo, hi)), "slice bounds out of range (string)")
		return Str{Fn: b.Fn, Off: smt.Add(b.Off, lo), Len: smt.Sub(hi, lo)}
	case Bytes:
		if lo == nil {
			lo = c0
		}
		if hi == nil {
			hi = b.Len
		}
		capv := b.Cap
		if mx != nil {
			e.boundsPanic(smt.Or(smt.UGt(mx, b.Cap), smt.UGt(hi, mx)), "slice bounds out of range (max)")
			capv = mx
		}
		e.boundsPanic(smt.Or(smt.UGt(hi, b.Cap), smt.UGt(lo, hi)), "slice bounds out of range [%s:%s] (byte slice)", lo, hi)
		if b.Nil && b.Buf == nil {
			return Bytes{Nil: true, Off: c0, Len: c0, Cap: c0}
		}
		return Bytes{Buf: b.Buf, Off: smt.Add(b.Off, lo), Len: smt.Sub(hi, lo), Cap: smt.Sub(capv, lo)}
	case Slice:
		l, h := 0, b.Len
		if lo != nil {
			l = e.concretize(lo, "slice low")
		}
		if hi != nil {
			h = e.concretize(hi, "slice high")
		}
		c := b.Cap
		if mx != nil {
			c = e.concretize(mx, "slice max")
		}
		if h > b.Cap || l > h || l < 0 || c > b.Cap {
			e.goPanicf("slice bounds out of range [%d:%d] with capacity %d", l, h, b.Cap)
		}
		if b.Nil {
			return Slice{Nil: true}
		}
		return Slice{Arr: b.Arr, Off: b.Off + l, Len: h - l, Cap: c - l}
	case Ptr: // pointer to array
		if b.Obj == nil {
			e.goPanicf("nil pointer dereference")
		}
		av := getPath(b.Obj.Val, b.Path)
		switch a := av.(type) {
		case ByteArr:
			if lo == nil {
				lo = c0
			}
			if hi == nil {
				hi = c64(a.N)
			}
			e.boundsPanic(smt.Or(smt.UGt(hi, c64(a.N)), smt.UGt(lo, hi)), "slice bounds out of range (byte array)")
			return Bytes{Buf: a.Buf, Off: lo, Len: smt.Sub(hi, lo), Cap: smt.Sub(c64(a.N), lo)}
		case *Array:
			l, h := 0, len(a.Elems)
			if lo != nil {
				l = e.concretize(lo, "slice low")
			}
			if hi != nil {
				h = e.concretize(hi, "slice high")
			}
			if len(b.Path) != 0 {
				// move the array into its own object is not possible without aliasing; require top-level arrays
				panic(engineErr("slice of nested array"))
			}
			return Slice{Arr: b.Obj, Off: l, Len: h - l, Cap: len(a.Elems) - l}
		}
		panic(engineErr("slice of pointer to %T", av))
	}
	panic(engineErr("slice on %T", base))
}

func (e *Exec) typeAssert(fr *frame, x *ssa.TypeAssert) Value {
	v := e.operand(fr, x.X).(Iface)
	ok := false
	var res Value
	if v.Typ != nil {
		if types.IsInterface(x.AssertedType) {
			it := x.AssertedType.Underlying().(*types.Interface)
			ok = types.Implements(v.Typ, it)
			if !ok {
				// opaque stub values implement whatever the code asks
				if o, isO := v.Val.(Opaque); isO && (o.Kind == "error" || o.Kind == "stubobj" || o.Kind == "feetx") {
					ok = true
				}
			}
			res = v
		} else {
			ok = types.Identical(v.Typ, x.AssertedType)
			res = v.Val
		}
	}
	if !ok {
		if types.IsInterface(x.AssertedType) {
			res = Iface{}
		} else {
			res = e.zero(x.AssertedType)
		}
	}
	if x.CommaOk {
		return Tuple{res, smt.BoolConst(ok)}
	}
	if !ok {
		e.goPanicf("interface conversion: type assertion to %s failed", typeString(x.AssertedType))
	}
	return res
}

// canon replaces a complicated scalar by an input symbol it provably equals on
// this path (a proved equality, so sound); keeps nested buffer reads from
// compounding across loop iterations.
func (e *Exec) canon(t *smt.Term) *smt.Term {
	if e.reason == "" {
		e.reason = "canon"
		defer func() { e.reason = "" }()
	}
	if t.IsConst() || e.initMode || smt.Size(t) <= 8 {
		return t
	}
	if e.path.cursor < len(e.path.decisions) {
		// replaying a prefix: still needed for determinism (same terms as first run)
	}
	for _, ns := range e.path.nondets {
		var c *smt.Term
		switch ns.Kind {
		case "bytes", "string":
			c = ns.Len
		case "u64", "i64", "int":
			c = ns.Term
		default:
			continue
		}
		if c.Sort != t.Sort {
			continue
		}
		if e.feasible(smt.Ne(t, c)) == smt.Unsat {
			return c
		}
	}
	return t
}

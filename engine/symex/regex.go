package symex

import (
	"fmt"
	"regexp/syntax"

	"verif/engine/smt"
)

type reItem struct {
	lit      []byte  // literal bytes (fixed)
	class    []rune  // rune range pairs
	min, max int     // repetition of class; max=-1 unbounded
	highAll  bool    // class contains every rune >= 0x80
	highNone bool    // class contains no rune >= 0x80
	extra    []rune  // a few single non-ASCII runes of the class (e.g. from (?i) folding: U+212A, U+017F)
}

func parseRegex(pat string) ([]reItem, error) {
	re, err := syntax.Parse(pat, syntax.Perl)
	if err != nil {
		return nil, err
	}
	var subs []*syntax.Regexp
	if re.Op == syntax.OpConcat {
		subs = re.Sub
	} else {
		subs = []*syntax.Regexp{re}
	}
	if len(subs) < 2 || subs[0].Op != syntax.OpBeginText {
		return nil, fmt.Errorf("pattern %q is not ^ anchored", pat)
	}
	// without the end anchor the pattern matches when a prefix of the string matches: the last
	// repetition needs only its minimal count and is followed by "anything" (handled below)
	openEnd := subs[len(subs)-1].Op != syntax.OpEndText
	if openEnd {
		subs = append(append([]*syntax.Regexp{}, subs...), &syntax.Regexp{Op: syntax.OpEndText})
	}
	var items []reItem
	mkClass := func(r *syntax.Regexp, min, max int) (reItem, error) {
		var rs []rune
		switch r.Op {
		case syntax.OpCharClass:
			rs = r.Rune
		case syntax.OpLiteral:
			if len(r.Rune) != 1 || r.Flags&syntax.FoldCase != 0 {
				return reItem{}, fmt.Errorf("repeat of multi-rune literal")
			}
			rs = []rune{r.Rune[0], r.Rune[0]}
		case syntax.OpAnyCharNotNL:
			rs = []rune{0, '\n' - 1, '\n' + 1, 0x10FFFF}
		case syntax.OpAnyChar:
			rs = []rune{0, 0x10FFFF}
		default:
			return reItem{}, fmt.Errorf("unsupported repeat operand %v", r.Op)
		}
		it := reItem{class: rs, min: min, max: max}
		// classify the >= 0x80 part
		covered := int64(0)
		for i := 0; i+1 < len(rs); i += 2 {
			lo, hi := rs[i], rs[i+1]
			if hi < 0x80 {
				continue
			}
			if lo < 0x80 {
				lo = 0x80
			}
			covered += int64(hi-lo) + 1
		}
		total := int64(0x10FFFF-0x80) + 1
		it.highNone = covered == 0
		// surrogates are not valid runes; a class built by negation covers them too
		it.highAll = covered == total
		if !it.highNone && !it.highAll {
			if covered > 8 {
				return reItem{}, fmt.Errorf("class with partial non-ASCII coverage")
			}
			// a handful of individual non-ASCII runes: matched as their UTF-8 byte sequences
			for i := 0; i+1 < len(rs); i += 2 {
				for r := rs[i]; r <= rs[i+1]; r++ {
					if r >= 0x80 {
						it.extra = append(it.extra, r)
					}
				}
			}
			it.highNone = true // the single-byte part of the class is ASCII only
		}
		if !(min == 1 && max == 1) && !(max == -1) && !it.highNone {
			return reItem{}, fmt.Errorf("counted repetition over a class containing non-ASCII runes")
		}
		return it, nil
	}
	for _, s := range subs[1 : len(subs)-1] {
		switch s.Op {
		case syntax.OpLiteral:
			if s.Flags&syntax.FoldCase != 0 {
				return nil, fmt.Errorf("case-folded literal")
			}
			items = append(items, reItem{lit: []byte(string(s.Rune))})
		case syntax.OpCharClass, syntax.OpAnyCharNotNL, syntax.OpAnyChar:
			it, err := mkClass(s, 1, 1)
			if err != nil {
				return nil, err
			}
			if !it.highNone {
				return nil, fmt.Errorf("single class with non-ASCII runes")
			}
			items = append(items, it)
		case syntax.OpStar, syntax.OpPlus, syntax.OpQuest, syntax.OpRepeat:
			min, max := 0, -1
			switch s.Op {
			case syntax.OpPlus:
				min = 1
			case syntax.OpQuest:
				max = 1
			case syntax.OpRepeat:
				min, max = s.Min, s.Max
			}
			it, err := mkClass(s.Sub[0], min, max)
			if err != nil {
				return nil, err
			}
			items = append(items, it)
		default:
			return nil, fmt.Errorf("unsupported regex operator %v in %q", s.Op, pat)
		}
	}
	if openEnd {
		if n := len(items); n > 0 && items[n-1].lit == nil && items[n-1].min != items[n-1].max {
			last := items[n-1]
			if last.min == 0 {
				items = items[:n-1]
			} else {
				if !last.highNone {
					return nil, fmt.Errorf("open-ended pattern whose last class contains non-ASCII runes")
				}
				last.max = last.min
				items[n-1] = last
			}
		}
		items = append(items, reItem{class: []rune{0, 0x10FFFF}, min: 0, max: -1, highAll: true})
	}
	return items, nil
}

func (it reItem) inClass(b *smt.Term) *smt.Term {
	var cs []*smt.Term
	for i := 0; i+1 < len(it.class); i += 2 {
		lo, hi := it.class[i], it.class[i+1]
		if lo >= 0x80 {
			continue
		}
		if hi >= 0x80 {
			hi = 0x7f
		}
		if lo == hi {
			cs = append(cs, smt.Eq(b, smt.Const(uint64(lo), 8)))
		} else {
			cs = append(cs, smt.And(smt.UGe(b, smt.Const(uint64(lo), 8)), smt.ULe(b, smt.Const(uint64(hi), 8))))
		}
	}
	if it.highAll {
		cs = append(cs, smt.UGe(b, smt.Const(0x80, 8)))
	}
	return smt.Or(cs...)
}

// staticMax computes an upper bound of a BV64 length term from declared
// nondet maxima.
func (e *Exec) staticMax(t *smt.Term) (uint64, bool) {
	switch t.Op {
	case "const":
		return t.Val, true
	case "var":
		for _, ns := range e.path.nondets {
			if ns.Len == t && ns.Max >= 0 {
				return uint64(ns.Max), true
			}
		}
		return 0, false
	case "bvadd":
		a, ok1 := e.staticMax(t.Args[0])
		b, ok2 := e.staticMax(t.Args[1])
		if t.Args[1].IsConst() && int64(t.Args[1].Val) < 0 && ok1 {
			// x - c
			c := uint64(-int64(t.Args[1].Val))
			if a >= c {
				return a - c, true
			}
			return a, true
		}
		if ok1 && ok2 {
			return a + b, true
		}
	case "bvsub":
		a, ok := e.staticMax(t.Args[0])
		return a, ok
	case "ite":
		a, ok1 := e.staticMax(t.Args[1])
		b, ok2 := e.staticMax(t.Args[2])
		if ok1 && ok2 {
			if a > b {
				return a, true
			}
			return b, true
		}
	}
	return 0, false
}

// feasibleMax finds a bound M with "len > M" infeasible on this path.
func (e *Exec) feasibleMax(ln *smt.Term) (int, bool) {
	if e.reason == "" {
		e.reason = "feasmax"
		defer func() { e.reason = "" }()
	}
	if ln.IsConst() {
		return int(ln.Val), true
	}
	sm, okS := e.staticMax(ln)
	for _, T := range []uint64{8, 16, 45, 72, 129, 160, 256, 512, 1024, 5001, 8192} {
		if okS && sm <= T {
			return int(sm), true
		}
		if e.feasible(smt.UGt(ln, smt.Const(T, 64))) == smt.Unsat {
			return int(T), true
		}
	}
	if okS && sm <= 1<<14 {
		return int(sm), true
	}
	return 0, false
}

// regexMatch returns a Bool term for "pattern matches s".
func (e *Exec) regexMatch(pat string, s Str) *smt.Term {
	sv := strView(s)
	if t, ok := sv.wholeAtom(); ok {
		// atoms are matched at byte level too (over strbyte), so that models are
		// realisable natively; only an atom of unbounded length falls back to an
		// uninterpreted predicate
		if _, bounded := e.feasibleMax(sv.Len); !bounded {
			e.Notes[fmt.Sprintf("stub regexp on an atom of unbounded length: uninterpreted predicate for %q", pat)] = true
			return smt.UF("re_match:"+pat, "(Str) Bool", smt.Bool, t)
		}
	}
	if cs, ok := sv.concrete(); ok {
		return smt.BoolConst(goRegexMatch(pat, cs))
	}
	items, err := parseRegex(pat)
	if err != nil {
		panic(engineErr("regexp %q outside the supported fragment: %v", pat, err))
	}
	for _, it := range items {
		if len(it.extra) > 0 {
			if len(items) != 1 || it.max != -1 || it.min > 1 {
				panic(engineErr("regexp %q: a class with individual non-ASCII runes is supported only as ^[class]+$ or ^[class]*$", pat))
			}
			return e.regexMatchMultiByte(pat, it, sv)
		}
	}
	// at most one variable-length item
	varIdx := -1
	fixedBefore, fixedAfter := 0, 0
	for i, it := range items {
		w := 0
		if it.lit != nil {
			w = len(it.lit)
		} else if it.min == it.max {
			w = it.min
		} else {
			if varIdx >= 0 {
				panic(engineErr("regexp %q has more than one variable-length item", pat))
			}
			varIdx = i
			continue
		}
		if varIdx < 0 {
			fixedBefore += w
		} else {
			fixedAfter += w
		}
	}
	fixed := fixedBefore + fixedAfter
	var cs []*smt.Term
	if varIdx < 0 {
		cs = append(cs, smt.Eq(sv.Len, c64(fixed)))
	} else {
		it := items[varIdx]
		cs = append(cs, smt.UGe(sv.Len, c64(fixed+it.min)))
		if it.max >= 0 {
			cs = append(cs, smt.ULe(sv.Len, c64(fixed+it.max)))
		}
	}
	// fixed items before the variable one: absolute positions from the start
	pos := 0
	for i, it := range items {
		if i == varIdx {
			break
		}
		if it.lit != nil {
			for _, b := range it.lit {
				cs = append(cs, smt.Eq(sv.at(c64(pos)), smt.Const(uint64(b), 8)))
				pos++
			}
		} else {
			for k := 0; k < it.min; k++ {
				cs = append(cs, it.inClass(sv.at(c64(pos))))
				pos++
			}
		}
	}
	if varIdx >= 0 {
		it := items[varIdx]
		// fixed items after: positions relative to the end
		back := fixedAfter
		for _, jt := range items[varIdx+1:] {
			if jt.lit != nil {
				for _, b := range jt.lit {
					cs = append(cs, smt.Eq(sv.at(smt.Sub(sv.Len, c64(back))), smt.Const(uint64(b), 8)))
					back--
				}
			} else {
				for k := 0; k < jt.min; k++ {
					cs = append(cs, jt.inClass(sv.at(smt.Sub(sv.Len, c64(back)))))
					back--
				}
			}
		}
		// middle: every byte in [fixedBefore, len-fixedAfter) is in the class
		M := 0
		if it.max >= 0 {
			M = fixed + it.max
		} else {
			m, ok := e.feasibleMax(sv.Len)
			if !ok {
				panic(engineErr("regexp %q on a string of unbounded length", pat))
			}
			M = m
		}
		e.Notes[fmt.Sprintf("regexp %q encoded at byte level over the first %d positions", pat, M)] = true
		end := smt.Sub(sv.Len, c64(fixedAfter))
		for i := fixedBefore; i < M-fixedAfter; i++ {
			cs = append(cs, smt.Implies(smt.ULt(c64(i), end), it.inClass(sv.at(c64(i)))))
		}
	}
	return smt.And(cs...)
}


// regexMatchMultiByte: ^[class]+$ / ^[class]*$ where the class is ASCII ranges plus a few
// individual non-ASCII runes. reach[i] = "a rune boundary of a matching prefix can be at byte i".
func (e *Exec) regexMatchMultiByte(pat string, it reItem, sv view) *smt.Term {
	M, ok := e.feasibleMax(sv.Len)
	if !ok {
		panic(engineErr("regexp %q on a string of unbounded length", pat))
	}
	e.Notes[fmt.Sprintf("regexp %q encoded at byte level (ASCII ranges plus %d multi-byte runes) over the first %d positions", pat, len(it.extra), M)] = true
	reach := make([]*smt.Term, M+1)
	reach[0] = smt.True
	for i := 1; i <= M; i++ {
		var alts []*smt.Term
		alts = append(alts, smt.And(reach[i-1], it.inClass(sv.at(c64(i-1)))))
		for _, r := range it.extra {
			enc := []byte(string(r))
			if len(enc) > i {
				continue
			}
			cs := []*smt.Term{reach[i-len(enc)]}
			for k, b := range enc {
				cs = append(cs, smt.Eq(sv.at(c64(i-len(enc)+k)), smt.Const(uint64(b), 8)))
			}
			alts = append(alts, smt.And(cs...))
		}
		reach[i] = smt.Or(alts...)
	}
	var final []*smt.Term
	for i := it.min; i <= M; i++ {
		final = append(final, smt.And(smt.Eq(sv.Len, c64(i)), reach[i]))
	}
	return smt.Or(final...)
}

package symex

import (
	"go/types"

	"golang.org/x/tools/go/ssa"

	"verif/engine/smt"
)

// Stubs for the file system, JSON, hex, KDF/cipher/hash libraries and
// sync.RWMutex used by the DID key store (C17, C20).

// havoc builds an arbitrary value of a type (atoms for strings, free
// integers; pointers and slices are left zero).
func (e *Exec) havoc(t types.Type, site string) Value {
	if w, _, ok := intWidth(t); ok {
		k := e.siteKey(site)
		v := smt.Var("in:"+k, smt.BV(w))
		kind := "i64"
		e.addSite(NondetSite{Key: k, Kind: kind, Term: v})
		return v
	}
	if isBool(t) {
		k := e.siteKey(site)
		v := smt.Var("in:"+k, smt.Bool)
		e.addSite(NondetSite{Key: k, Kind: "bool", Term: v})
		return v
	}
	if isString(t) {
		k := e.siteKey(site)
		a := smt.Var("atom:"+k, smt.StrS)
		e.assume(smt.ULe(strlenOf(a), smt.Const(600, 64)))
		e.addSite(NondetSite{Key: k, Kind: "atom", Term: a})
		e.registerAtom(a)
		return Str{Fn: FnAtom{a}, Off: c0, Len: strlenOf(a)}
	}
	if st, ok := t.Underlying().(*types.Struct); ok {
		fs := make([]Value, st.NumFields())
		for i := range fs {
			fs[i] = e.havoc(st.Field(i).Type(), site+"."+st.Field(i).Name())
		}
		return &Struct{Fields: fs}
	}
	return e.zero(t)
}

func (e *Exec) nondetErr(site string) Value {
	k := e.siteKey(site)
	b := smt.Var("in:"+k, smt.Bool)
	e.addSite(NondetSite{Key: k, Kind: "bool", Term: b})
	if e.branch(b) {
		return e.newErr(site)
	}
	return nilErr()
}

func (e *Exec) hexPair() {
	e.Notes["stub encoding/hex: DecodeString/EncodeToString as an uninterpreted pair with Decode(Encode(b)) = b; arbitrary strings may fail to decode"] = true
}

func init() {
	for _, m := range []string{"Lock", "Unlock", "RLock", "RUnlock"} {
		m := m
		stubs["(*sync.RWMutex)."+m] = func(e *Exec, fn *ssa.Function, args []Value) Value {
			e.path.events = append(e.path.events, "lock:"+m)
			return nil
		}
	}
	for _, m := range []string{"Store", "LoadOrStore", "Delete", "Swap", "LoadAndDelete", "CompareAndSwap"} {
		m := m
		stubs["(*sync.Map)."+m] = func(e *Exec, fn *ssa.Function, args []Value) Value {
			e.PreWrites["sync.Map."+m+" (process-local cache)"] = true
			e.path.events = append(e.path.events, "syncmap:"+m)
			res := fn.Signature.Results()
			switch res.Len() {
			case 0:
				return nil
			case 1:
				return e.zero(res.At(0).Type())
			}
			t := make(Tuple, res.Len())
			for i := range t {
				t[i] = e.zero(res.At(i).Type())
			}
			return t
		}
	}
	stubs["(*sync.Map).Load"] = func(e *Exec, fn *ssa.Function, args []Value) Value {
		e.Notes["stub sync.Map.Load: cold cache (not found); any Store is reported as process-local state"] = true
		return Tuple{Iface{}, smt.False}
	}
	stubs["(*sync.Map).Range"] = func(e *Exec, fn *ssa.Function, args []Value) Value { return nil }
	stubs["(*sync.Mutex).Lock"] = func(e *Exec, fn *ssa.Function, args []Value) Value {
		e.path.events = append(e.path.events, "lock:Lock")
		return nil
	}
	stubs["(*sync.Mutex).Unlock"] = func(e *Exec, fn *ssa.Function, args []Value) Value {
		e.path.events = append(e.path.events, "lock:Unlock")
		return nil
	}
	file := func(e *Exec, fn *ssa.Function, args []Value) Value {
		err := e.nondetErr("os." + fn.Name())
		if !isNilIface(err) {
			return Tuple{Ptr{}, err}
		}
		o := e.newObj(nil, Opaque{Kind: "file"})
		return Tuple{Ptr{Obj: o}, nilErr()}
	}
	stubs["os.Open"] = file
	stubs["os.Create"] = file
	stubs["(*os.File).Close"] = func(e *Exec, fn *ssa.Function, args []Value) Value { return nilErr() }
	stubs["os.Stat"] = func(e *Exec, fn *ssa.Function, args []Value) Value {
		return Tuple{Iface{}, e.nondetErr("os.Stat")}
	}
	stubs["os.IsNotExist"] = func(e *Exec, fn *ssa.Function, args []Value) Value {
		if isNilIface(args[0]) {
			return smt.False
		}
		return e.havoc(types.Typ[types.Bool], "os.IsNotExist")
	}
	stubs["os.MkdirAll"] = func(e *Exec, fn *ssa.Function, args []Value) Value { return e.nondetErr("os.MkdirAll") }
	stubs["path/filepath.Join"] = func(e *Exec, fn *ssa.Function, args []Value) Value { return e.opaqueString("path") }
	stubs["path/filepath.Glob"] = func(e *Exec, fn *ssa.Function, args []Value) Value {
		err := e.nondetErr("filepath.Glob")
		if !isNilIface(err) {
			return Tuple{Slice{Nil: true}, err}
		}
		n := e.forkN(3)
		var parts []Str
		for i := 0; i < n; i++ {
			parts = append(parts, e.opaqueString("match"))
		}
		if n == 0 {
			return Tuple{Slice{Nil: true}, nilErr()}
		}
		return Tuple{e.strSlice(parts), nilErr()}
	}
	// wall-clock rendering of a time value: deterministic for UTC values (block time), process-local
	// for values in the Local zone (time.Unix, Time.Local): the TZ of the node leaks into the result
	for _, m := range []string{"Format", "String", "GoString"} {
		m := m
		stubs["(time.Time)."+m] = func(e *Exec, fn *ssa.Function, args []Value) Value {
			if o, ok := args[0].(Opaque); ok && o.Kind == "timelocal" {
				e.Notes["time.Time."+m+" on a value in the process-local zone (made by time.Unix / UnixMilli / Local): the text depends on the node's TZ (non-determinism hazard)"] = true
				e.path.events = append(e.path.events, "nondeterminism:time.Time."+m+" in the process-local time zone")
			}
			return e.opaqueString("timefmt")
		}
	}
	for _, m := range []string{"Unix", "UnixMilli", "UnixMicro"} {
		m := m
		stubs["time."+m] = func(e *Exec, fn *ssa.Function, args []Value) Value {
			var t *smt.Term
			switch m {
			case "Unix":
				t = smt.Add(smt.Mul(args[0].(*smt.Term), smt.Const(1000000000, 64)), args[1].(*smt.Term))
			case "UnixMilli":
				t = smt.Mul(args[0].(*smt.Term), smt.Const(1000000, 64))
			default:
				t = smt.Mul(args[0].(*smt.Term), smt.Const(1000, 64))
			}
			return Opaque{Kind: "timelocal", Data: t}
		}
	}
	stubs["(time.Time).Local"] = func(e *Exec, fn *ssa.Function, args []Value) Value {
		return Opaque{Kind: "timelocal", Data: args[0].(Opaque).Data}
	}
	stubs["encoding/json.NewDecoder"] = func(e *Exec, fn *ssa.Function, args []Value) Value {
		return Ptr{Obj: e.newObj(nil, Opaque{Kind: "jsondec"})}
	}
	stubs["encoding/json.NewEncoder"] = func(e *Exec, fn *ssa.Function, args []Value) Value {
		return Ptr{Obj: e.newObj(nil, Opaque{Kind: "jsonenc"})}
	}
	stubs["(*encoding/json.Encoder).Encode"] = func(e *Exec, fn *ssa.Function, args []Value) Value {
		return e.nondetErr("json.Encode")
	}
	stubs["(*encoding/json.Decoder).Decode"] = func(e *Exec, fn *ssa.Function, args []Value) Value {
		// arbitrary file content: the decoded value is arbitrary
		err := e.nondetErr("json.Decode")
		iv := args[1].(Iface)
		p, ok := iv.Val.(Ptr)
		if ok && p.Obj != nil && isNilIface(err) {
			if pt, ok := iv.Typ.(*types.Pointer); ok {
				e.store(p, e.havoc(pt.Elem(), "file"))
			}
		}
		e.Notes["stub encoding/json Decoder.Decode: the decoded value is arbitrary (any key-file content)"] = true
		return err
	}
	hexAtom := func(e *Exec, v view) *smt.Term {
		if t, ok := v.wholeAtom(); ok {
			return t
		}
		if cs, isC := v.concrete(); isC {
			return e.literalAtom(cs)
		}
		return e.atomOfView(v)
	}
	stubs["encoding/hex.EncodeToString"] = func(e *Exec, fn *ssa.Function, args []Value) Value {
		e.hexPair()
		t := hexAtom(e, bytesView(args[0].(Bytes)))
		s := smt.UF("hexenc", "(Str) Str", smt.StrS, t)
		e.addAxiom(smt.And(smt.UF("hexok", "(Str) Bool", smt.Bool, s), smt.Eq(smt.UF("hexdec", "(Str) Str", smt.StrS, s), t),
			smt.Eq(strlenOf(s), smt.Add(strlenOf(t), strlenOf(t)))))
		return Str{Fn: FnAtom{s}, Off: c0, Len: strlenOf(s)}
	}
	stubs["encoding/hex.DecodeString"] = func(e *Exec, fn *ssa.Function, args []Value) Value {
		e.hexPair()
		t := hexAtom(e, strView(args[0].(Str)))
		if e.branch(smt.UF("hexok", "(Str) Bool", smt.Bool, t)) {
			d := smt.UF("hexdec", "(Str) Str", smt.StrS, t)
			e.addAxiom(smt.ULe(strlenOf(d), strlenOf(t)))
			buf := e.newBuf(FnAtom{d}, strlenOf(d))
			return Tuple{Bytes{Buf: buf, Off: c0, Len: strlenOf(d), Cap: strlenOf(d)}, nilErr()}
		}
		return Tuple{Bytes{Nil: true, Off: c0, Len: c0, Cap: c0}, e.newErr("hex")}
	}
	stubs["golang.org/x/crypto/pbkdf2.Key"] = func(e *Exec, fn *ssa.Function, args []Value) Value {
		n := args[3].(*smt.Term)
		e.Notes["stub pbkdf2.Key (contract from golang.org/x/crypto source): panics for keyLen < 0 and for keyLen above 2^48 (makeslice); otherwise arbitrary bytes with len = keyLen and cap = ceil(keyLen/32)*32"] = true
		if e.branch(smt.SLt(n, c0)) {
			e.goPanicf("pbkdf2.Key: slice bounds out of range / makeslice: cap out of range (keyLen < 0)")
		}
		if e.branch(smt.UGt(n, smt.Const(1<<48, 64))) {
			// numBlocks*hashLen overflows or exceeds the runtime's maximal allocation (2^48 bytes)
			e.goPanicf("pbkdf2.Key: makeslice: cap out of range (keyLen above the maximal allocation)")
		}
		k := e.fresh("dk", smt.StrS)
		capT := smt.Mul(smt.UDiv(smt.Add(n, c64(31)), c64(32)), c64(32))
		buf := e.newBuf(FnAtom{k}, capT)
		return Bytes{Buf: buf, Off: c0, Len: n, Cap: capT}
	}
	stubs["golang.org/x/crypto/sha3.NewLegacyKeccak256"] = func(e *Exec, fn *ssa.Function, args []Value) Value {
		return Iface{Typ: storeMarkerType, Val: Opaque{Kind: "hash"}}
	}
	stubs["crypto/sha256.New"] = stubs["golang.org/x/crypto/sha3.NewLegacyKeccak256"]
	stubs["crypto/aes.NewCipher"] = func(e *Exec, fn *ssa.Function, args []Value) Value {
		k := args[0].(Bytes)
		e.Notes["stub aes.NewCipher: error iff key length not in {16,24,32}"] = true
		okLen := smt.Or(smt.Eq(k.Len, c64(16)), smt.Eq(k.Len, c64(24)), smt.Eq(k.Len, c64(32)))
		if e.branch(okLen) {
			return Tuple{Iface{Typ: storeMarkerType, Val: Opaque{Kind: "cipherblock"}}, nilErr()}
		}
		return Tuple{Iface{}, e.newErr("aes.KeySizeError")}
	}
	stubs["crypto/cipher.NewCTR"] = func(e *Exec, fn *ssa.Function, args []Value) Value {
		iv := args[1].(Bytes)
		e.Notes["stub cipher.NewCTR: panics iff len(iv) != block size (16)"] = true
		if e.branch(smt.Ne(iv.Len, c64(16))) {
			e.goPanicf("cipher.NewCTR: IV length must equal block size")
		}
		return Iface{Typ: storeMarkerType, Val: Opaque{Kind: "stream"}}
	}
}

func init() {
	extraIntrinsics["vMACFor"] = func(e *Exec, fn *ssa.Function, args []Value) Value {
		site := e.siteKey("mac")
		arr := smt.Var("arr:"+site, smt.Arr)
		ln := smt.Var("len:"+site, smt.BV64)
		e.assume(smt.ULe(ln, c64(40)))
		e.addSite(NondetSite{Key: site, Kind: "bytes", Len: ln, Arr: arr, Max: 40})
		buf := e.newBuf(FnArr{arr}, ln)
		return stubs["encoding/hex.EncodeToString"](e, fn, []Value{Bytes{Buf: buf, Off: c0, Len: ln, Cap: ln}})
	}
}

func (e *Exec) hashMethod(o Opaque, method string, args []Value) (Value, bool) {
	switch o.Kind {
	case "hash":
		switch method {
		case "Write":
			return Tuple{args[0].(Bytes).Len, nilErr()}, true
		case "Sum":
			h := e.fresh("digest", smt.StrS)
			e.assume(smt.Eq(strlenOf(h), c64(32)))
			buf := e.newBuf(FnAtom{h}, c64(32))
			return Bytes{Buf: buf, Off: c0, Len: c64(32), Cap: c64(32)}, true
		}
	case "stream":
		if method == "XORKeyStream" {
			dst, src := args[0].(Bytes), args[1].(Bytes)
			if e.branch(smt.ULt(dst.Len, src.Len)) {
				e.goPanicf("crypto/cipher: output smaller than input")
			}
			if dst.Buf != nil {
				x := e.fresh("xor", smt.StrS)
				dst.Buf.Fn = FnCopy{Old: dst.Buf.Fn, DOff: dst.Off, Src: FnAtom{x}, SOff: c0, N: src.Len}
			}
			return nil, true
		}
	}
	return nil, false
}

// ---------------- sync.Pool ----------------
//
// Get returns a fresh object from New (the pool never hands the same object to the explored call
// twice, which is the most favourable behaviour for the code). Put marks the object, and every
// byte buffer reachable from it, as released: from then on another goroutine's Get may own it, so
// a function that still returns memory of a released object lets its caller read bytes that a
// concurrent call may be overwriting - recorded as a "race:" event (C20).

func (e *Exec) markReleased(v Value, depth int) {
	if depth > 6 {
		return
	}
	switch x := v.(type) {
	case Ptr:
		if x.Obj != nil && !x.Obj.Released {
			x.Obj.Released = true
			e.markReleased(x.Obj.Val, depth+1)
		}
	case Bytes:
		if x.Buf != nil {
			x.Buf.Released = true
		}
	case ByteArr:
		if x.Buf != nil {
			x.Buf.Released = true
		}
	case *Struct:
		for _, f := range x.Fields {
			e.markReleased(f, depth+1)
		}
	case *Array:
		for _, f := range x.Elems {
			e.markReleased(f, depth+1)
		}
	case Slice:
		if x.Arr != nil && !x.Arr.Released {
			x.Arr.Released = true
			e.markReleased(x.Arr.Val, depth+1)
		}
	case Iface:
		e.markReleased(x.Val, depth+1)
	}
}

func (e *Exec) isReleased(v Value, depth int) bool {
	if depth > 4 {
		return false
	}
	switch x := v.(type) {
	case Ptr:
		return x.Obj != nil && x.Obj.Released
	case Bytes:
		return x.Buf != nil && x.Buf.Released
	case Slice:
		return x.Arr != nil && x.Arr.Released
	case Tuple:
		for _, f := range x {
			if e.isReleased(f, depth+1) {
				return true
			}
		}
	case *Struct:
		for _, f := range x.Fields {
			if e.isReleased(f, depth+1) {
				return true
			}
		}
	case Iface:
		return e.isReleased(x.Val, depth+1)
	}
	return false
}

func (e *Exec) checkReturnsReleased(fr *frame, rv Value) {
	if rv != nil && e.isReleased(rv, 0) {
		ev := "race:" + fr.fn.String() + " returns memory of an object it has put back into a sync.Pool"
		for _, x := range e.path.events {
			if x == ev {
				return
			}
		}
		e.path.events = append(e.path.events, ev)
	}
}

func init() {
	poolNew := func(e *Exec, p Ptr) Value {
		st, ok := getPath(p.Obj.Val, p.Path).(*Struct)
		if !ok {
			return nil
		}
		sty, ok := p.Obj.Typ.Underlying().(*types.Struct)
		if !ok || len(p.Path) > 0 {
			return nil
		}
		for i := 0; i < sty.NumFields(); i++ {
			if sty.Field(i).Name() == "New" {
				return st.Fields[i]
			}
		}
		return nil
	}
	stubs["(*sync.Pool).Get"] = func(e *Exec, fn *ssa.Function, args []Value) Value {
		p := args[0].(Ptr)
		if p.Obj == nil {
			e.goPanicf("nil pointer dereference (sync.Pool)")
		}
		e.Notes["stub sync.Pool: Get always builds a fresh object with New; Put releases the object (use of released memory by the caller is a race event)"] = true
		if f, ok := poolNew(e, p).(*Func); ok && f != nil && f.Fn != nil {
			return e.callFn(f.Fn, nil, f.Bindings, nil)
		}
		return Iface{}
	}
	stubs["(*sync.Pool).Put"] = func(e *Exec, fn *ssa.Function, args []Value) Value {
		e.anyReleased = true
		e.markReleased(args[1], 0)
		return nil
	}
}

package symex

import (
	"fmt"
	"go/types"
	"sort"
	"strings"
	"sync"
	"sync/atomic"
	"time"

	"golang.org/x/tools/go/ssa"

	"verif/engine/smt"
)

// Program wraps the loaded SSA program (shared, read-only after load).
type Program struct {
	Prog     *ssa.Program
	Pkgs     map[string]*ssa.Package
	ExecPkgs []string // package path prefixes whose functions are executed from SSA
}

// Config of one harness run.
type Config struct {
	MaxBlockVisits int           // unwinding bound per loop header per frame
	MaxPaths       int           // safety cap
	MaxDepth       int           // call depth
	Solver         string        // z3 | z3-new | cvc5
	Timeout        time.Duration // per query
	FeasTimeout    time.Duration
	LogQueries     string // file to dump queries
	Trace          bool
	Incremental    bool // one solver session per path (push/pop per query) instead of one-shot scripts
	Summaries      bool // use the C18-justified compkey summary
	FixedIterOrder bool // iterate stores in insertion order only (no permutation forks)
}

// Path is the per-path mutable state (rebuilt on every re-execution).
type Path struct {
	pc        []*smt.Term
	pcSet     map[int]bool
	decisions []int
	cursor    int
	nextSym   int
	nextObj   int
	eqs       []eqRecord
	idxTerms  []*smt.Term
	sites     map[string]int // nondet site occurrence counters
	nondets   []NondetSite   // ordered list of nondet sites on this path
	globals   map[*ssa.Global]*Obj
	initDone  map[*ssa.Package]bool
	stores    map[string]*KVStore
	events    []string // lock events, emitted events etc
	writesPre []string // writes to pre-existing memory (C20/C10)
	calledExt map[string]bool
	covers    []string
	depth     int
	steps     int
	blobID    int
	concats   map[view][]view // concatenation provenance of strings
	script    *smt.Script // incremental mode: persistent per-path script
	sentPC    int
	sentInst  map[int]bool
	bank      *BankModel
	extra     map[string]interface{}
}

// NondetSite describes one nondeterministic input for model extraction.
type NondetSite struct {
	Key  string // site#n
	Kind string // u64,i64,int,bool,byte,bytes,string,atom,addr
	Term *smt.Term
	Len  *smt.Term // bytes/string
	Arr  *smt.Term // bytes/string base array
	Max  int
}

// CheckResult of one assertion instance.
type CheckResult struct {
	Label     string
	Verdict   string // "holds","violated","unknown"
	Decisions []int
	Oracle    map[string]interface{}
	Detail    string
}

type CoverResult struct {
	Label     string
	Decisions []int
	Oracle    map[string]interface{}
}

// Exec is one worker: an interpreter plus a solver process.
type Exec struct {
	P      *Program
	Cfg    Config
	solver *smt.Solver
	path   *Path
	work   [][]int // pending decision prefixes

	*ResultSet // results accumulated for the harness currently being explored
	initMode    bool
	catchDepth  int
	harnessName string

	// per-path scratch (reset in runOnePath)
	curDeferFrame    []*frame
	joins            []joinRec
	splitObligations []splitOb
	digitAtoms       []*smt.Term
	jsonEqDepth      int
	anyReleased      bool // some object was handed back to a sync.Pool on this path
	bech32Atoms      []*smt.Term
	viewAtoms        []viewAtom
	keyPairs         []*smt.Term
	curLoc           string
	callStack        []string
	reason           string
}

// ResultSet accumulates the results of the paths of one harness.
type ResultSet struct {
	Checks      map[string]*CheckStat
	Violations  []CheckResult
	Unknowns    []CheckResult
	Covers      map[string]*CoverResult
	Paths       int
	PathsEnded  map[string]int
	EngineErrs  []string
	FuncsSeen   map[string]bool
	StubsSeen   map[string]bool
	PreWrites   map[string]bool
	LockTraces  map[string]bool
	EventTraces map[string]bool
	Notes       map[string]bool
}

func NewResultSet() *ResultSet {
	return &ResultSet{
		Checks: map[string]*CheckStat{}, Covers: map[string]*CoverResult{}, PathsEnded: map[string]int{},
		FuncsSeen: map[string]bool{}, StubsSeen: map[string]bool{}, PreWrites: map[string]bool{},
		LockTraces: map[string]bool{}, EventTraces: map[string]bool{}, Notes: map[string]bool{},
	}
}

// Merge adds o into r.
func (r *ResultSet) Merge(o *ResultSet) {
	for k, v := range o.Checks {
		st := r.Checks[k]
		if st == nil {
			st = &CheckStat{}
			r.Checks[k] = st
		}
		st.Instances += v.Instances
		st.Holds += v.Holds
		st.Violated += v.Violated
		st.Unknown += v.Unknown
	}
	r.Violations = append(r.Violations, o.Violations...)
	r.Unknowns = append(r.Unknowns, o.Unknowns...)
	for k, v := range o.Covers {
		if _, ok := r.Covers[k]; !ok {
			r.Covers[k] = v
		}
	}
	r.Paths += o.Paths
	for k, v := range o.PathsEnded {
		r.PathsEnded[k] += v
	}
	r.EngineErrs = append(r.EngineErrs, o.EngineErrs...)
	for _, pair := range []struct{ dst, src map[string]bool }{{r.FuncsSeen, o.FuncsSeen}, {r.StubsSeen, o.StubsSeen}, {r.PreWrites, o.PreWrites}, {r.LockTraces, o.LockTraces}, {r.EventTraces, o.EventTraces}, {r.Notes, o.Notes}} {
		for k := range pair.src {
			pair.dst[k] = true
		}
	}
}

type CheckStat struct {
	Instances int
	Holds     int
	Violated  int
	Unknown   int
}

var (
	forkStats map[string]int
	forkMu    sync.Mutex
)

// EnableForkStats turns on fork-site counting (debug aid).
func EnableForkStats() { forkStats = map[string]int{} }

// ForkStats returns the counts.
func ForkStats() map[string]int { return forkStats }

type pathEnd struct {
	reason string
}

// goPanic is a Go-level panic propagating through interpreted frames.
type goPanic struct {
	msg   string
	value Value
}

func NewExec(p *Program, cfg Config) (*Exec, error) {
	if cfg.MaxBlockVisits == 0 {
		cfg.MaxBlockVisits = 64
	}
	if cfg.MaxPaths == 0 {
		cfg.MaxPaths = 200000
	}
	if cfg.MaxDepth == 0 {
		cfg.MaxDepth = 60
	}
	if cfg.Solver == "" {
		cfg.Solver = "z3"
	}
	if cfg.Timeout == 0 {
		cfg.Timeout = 60 * time.Second
	}
	if cfg.FeasTimeout == 0 {
		cfg.FeasTimeout = cfg.Timeout
	}
	s, err := smt.StartSolver(cfg.Solver, cfg.Timeout)
	if err != nil {
		return nil, err
	}
	s.IncTimeout = 4 * time.Second
	return &Exec{P: p, Cfg: cfg, solver: s}, nil
}

func (e *Exec) Close() { e.solver.Close() }

func (e *Exec) SetSolverLog(w interface{ Write([]byte) (int, error) }) { e.solver.Log = w }

func (e *Exec) resetResults() { e.ResultSet = NewResultSet() }

// RunHarness explores all paths of fn sequentially (single worker).
func (e *Exec) RunHarness(fn *ssa.Function) {
	e.resetResults()
	e.harnessName = fn.Name()
	e.work = [][]int{nil}
	for len(e.work) > 0 {
		prefix := e.work[len(e.work)-1]
		e.work = e.work[:len(e.work)-1]
		if e.Paths >= e.Cfg.MaxPaths {
			e.EngineErrs = append(e.EngineErrs, fmt.Sprintf("path cap %d reached", e.Cfg.MaxPaths))
			return
		}
		e.RunPath(fn, prefix)
		if len(e.EngineErrs) > 20 {
			return
		}
	}
}

// RunPath runs one path given a decision prefix and returns the alternative
// prefixes discovered (also left in e.work).
func (e *Exec) RunPath(fn *ssa.Function, prefix []int) {
	e.harnessName = fn.Name()
	e.Paths++
	e.runOnePath(fn, prefix)
}

// TakeWork removes and returns pending alternatives.
func (e *Exec) TakeWork() [][]int {
	w := e.work
	e.work = nil
	return w
}

func (e *Exec) runOnePath(fn *ssa.Function, prefix []int) {
	e.path = &Path{
		decisions: append([]int(nil), prefix...),
		pcSet:     map[int]bool{},
		sites:     map[string]int{},
		globals:   map[*ssa.Global]*Obj{},
		initDone:  map[*ssa.Package]bool{},
		stores:    map[string]*KVStore{},
		calledExt: map[string]bool{},
		extra:     map[string]interface{}{},
	}
	e.catchDepth = 0
	e.curDeferFrame, e.joins, e.splitObligations, e.digitAtoms, e.bech32Atoms, e.viewAtoms, e.keyPairs = nil, nil, nil, nil, nil, nil, nil
	e.anyReleased, e.jsonEqDepth = false, 0
	e.initMode = false
	e.callStack = nil
	reason := "returned"
	func() {
		defer func() {
			if r := recover(); r != nil {
				switch x := r.(type) {
				case pathEnd:
					reason = x.reason
				case goPanic:
					// an uncaught Go panic escaping the harness is a violation
					reason = "panic"
					e.reportEscapedPanic(x)
				case engineError:
					reason = "engine-error"
					e.EngineErrs = append(e.EngineErrs, fmt.Sprintf("%s [path %v]", x.msg, e.path.decisions))
				default:
					if ee, ok := asEngineErr(r); ok {
						reason = "engine-error"
						e.EngineErrs = append(e.EngineErrs, fmt.Sprintf("%s [path %v]", ee.msg, e.path.decisions))
					} else {
						panic(r)
					}
				}
			}
		}()
		e.callFunction(fn, nil, nil)
	}()
	e.PathsEnded[reason]++
	if reason == "engine-error" && len(e.path.events) > 0 {
		e.path.events = append(e.path.events, "engine-error")
	}
	if len(e.path.events) > 0 {
		e.EventTraces[strings.Join(e.path.events, " ; ")] = true
	}
}

// ---------------- decisions ----------------

// choose picks among n options. feasible(i) is only consulted for fresh
// decisions. Alternatives that are feasible are pushed on the worklist.
func (e *Exec) choose(n int, feasible func(i int) smt.Result) int {
	p := e.path
	if p.cursor < len(p.decisions) {
		d := p.decisions[p.cursor]
		p.cursor++
		return d
	}
	if forkStats != nil {
		forkMu.Lock()
		forkStats[e.curLoc]++
		forkMu.Unlock()
	}
	first := -1
	for i := 0; i < n; i++ {
		r := feasible(i)
		if r == smt.Unsat {
			continue
		}
		// unknown feasibility keeps the option (sound for verification)
		if first < 0 {
			first = i
		} else {
			alt := append(append([]int(nil), p.decisions...), i)
			e.work = append(e.work, alt)
		}
	}
	if first < 0 {
		panic(pathEnd{"infeasible"})
	}
	p.decisions = append(p.decisions, first)
	p.cursor++
	return first
}

// branch decides a symbolic condition, forking when both sides are feasible.
func (e *Exec) branch(c *smt.Term) bool {
	if c.IsTrue() {
		return true
	}
	if c.IsFalse() {
		return false
	}
	if e.path.pcSet[c.ID()] {
		return true
	}
	if e.path.pcSet[smt.Not(c).ID()] {
		return false
	}
	var firstRes smt.Result = smt.Unknown
	if e.reason == "" {
		e.reason = "branch"
		defer func() { e.reason = "" }()
	}
	d := e.choose(2, func(i int) smt.Result {
		if i == 0 {
			firstRes = e.feasible(c)
			return firstRes
		}
		if firstRes == smt.Unsat {
			return smt.Sat // pc is satisfiable, so the other side must be
		}
		return e.feasible(smt.Not(c))
	})
	if d == 0 {
		e.assume(c)
		return true
	}
	e.assume(smt.Not(c))
	return false
}

// forkN chooses an integer in [0,n) nondeterministically (all feasible).
func (e *Exec) forkN(n int) int {
	return e.choose(n, func(int) smt.Result { return smt.Sat })
}

func (e *Exec) assume(c *smt.Term) {
	if c.IsTrue() {
		return
	}
	p := e.path
	if p.pcSet[c.ID()] {
		return
	}
	p.pcSet[c.ID()] = true
	p.pc = append(p.pc, c)
}

func (e *Exec) addAxiom(c *smt.Term) { e.assume(c) }

// QueryReasons counts solver calls by purpose (profiling aid).
var QueryReasons sync.Map

func countReason(r string) {
	v, _ := QueryReasons.LoadOrStore(r, new(int64))
	atomic.AddInt64(v.(*int64), 1)
}

// solve decides pc ∧ extra. With getTerms, returns their model values.
func (e *Exec) solve(extra []*smt.Term, getTerms []*smt.Term) (smt.Result, []string, error) {
	if e.reason == "" {
		countReason("other")
	} else {
		countReason(e.reason)
	}
	if !e.Cfg.Incremental {
		s := e.script(extra...)
		var q []string
		for _, t := range getTerms {
			q = append(q, s.Ref(t))
		}
		return e.solver.Check(s.String(), q)
	}
	p := e.path
	if p.script == nil {
		p.script = smt.NewScript()
		p.sentInst = map[int]bool{}
		e.solver.Begin()
	}
	for ; p.sentPC < len(p.pc); p.sentPC++ {
		p.script.Assert(p.pc[p.sentPC])
	}
	for _, c := range p.instantiations() {
		if c.IsTrue() || p.sentInst[c.ID()] {
			continue
		}
		p.sentInst[c.ID()] = true
		p.script.Assert(c)
	}
	// definitions needed by extra and getTerms go to the top level
	var refs, q []string
	for _, c := range extra {
		refs = append(refs, p.script.Ref(c))
	}
	for _, t := range getTerms {
		q = append(q, p.script.Ref(t))
	}
	e.solver.Add(p.script.Drain())
	var ex strings.Builder
	for _, r := range refs {
		ex.WriteString("(assert " + r + ")\n")
	}
	r, vals, err := e.solver.CheckInc(ex.String(), q)
	if r == smt.Unknown {
		// fall back to a one-shot script (full tactic pipeline, full timeout)
		s := e.script(extra...)
		var q1 []string
		for _, t := range getTerms {
			q1 = append(q1, s.Ref(t))
		}
		return e.solver.Check(s.String(), q1)
	}
	return r, vals, err
}

func (e *Exec) script(extra ...*smt.Term) *smt.Script {
	s := smt.NewScript()
	for _, c := range e.path.pc {
		s.Assert(c)
	}
	for _, c := range e.path.instantiations() {
		if !c.IsTrue() {
			s.Assert(c)
		}
	}
	for _, c := range extra {
		s.Assert(c)
	}
	return s
}

func (e *Exec) feasible(c *smt.Term) smt.Result {
	if c.IsFalse() {
		return smt.Unsat
	}
	r, _, err := e.solve([]*smt.Term{c}, nil)
	if err != nil {
		e.Notes["solver: "+err.Error()] = true
		return smt.Unknown
	}
	return r
}

// ---------------- fresh symbols ----------------

func (e *Exec) fresh(prefix string, s smt.Sort) *smt.Term {
	e.path.nextSym++
	return smt.Var(fmt.Sprintf("%s!%d", prefix, e.path.nextSym), s)
}

func (e *Exec) siteKey(site string) string {
	n := e.path.sites[site]
	e.path.sites[site] = n + 1
	if n == 0 {
		return site
	}
	return fmt.Sprintf("%s#%d", site, n)
}

// ---------------- assertions ----------------

func (e *Exec) stat(label string) *CheckStat {
	st := e.Checks[label]
	if st == nil {
		st = &CheckStat{}
		e.Checks[label] = st
	}
	return st
}

// check asserts cond on the current path.
func (e *Exec) check(cond *smt.Term, label string) {
	st := e.stat(label)
	st.Instances++
	if cond.IsTrue() {
		st.Holds++
		return
	}
	neg := smt.Not(cond)
	e.reason = "check"
	r, _, err := e.solve([]*smt.Term{neg}, nil)
	e.reason = ""
	if err != nil {
		e.Notes["solver: "+err.Error()] = true
	}
	switch r {
	case smt.Unsat:
		st.Holds++
		// assert-then-assume
		for i := range e.path.eqs {
			if e.path.eqs[i].eq == cond {
				e.path.eqs[i].proven = true
			}
		}
		e.assume(cond)
	case smt.Sat:
		st.Violated++
		orc, oerr := e.extractOracle(neg)
		cr := CheckResult{Label: label, Verdict: "violated", Decisions: append([]int(nil), e.path.decisions[:e.path.cursor]...), Oracle: orc}
		if oerr != nil {
			cr.Detail = "model extraction failed: " + oerr.Error()
		}
		e.Violations = append(e.Violations, cr)
		// continue on the side where it holds, if feasible
		if e.feasible(cond) == smt.Unsat {
			panic(pathEnd{"check-failed"})
		}
		e.assume(cond)
	default:
		st.Unknown++
		e.Unknowns = append(e.Unknowns, CheckResult{Label: label, Verdict: "unknown", Decisions: append([]int(nil), e.path.decisions[:e.path.cursor]...)})
		e.assume(cond)
	}
}

func (e *Exec) reportEscapedPanic(gp goPanic) {
	label := "no-panic: " + gp.msg
	st := e.stat(label)
	st.Instances++
	st.Violated++
	orc, oerr := e.extractOracle()
	cr := CheckResult{Label: label, Verdict: "violated", Decisions: append([]int(nil), e.path.decisions[:e.path.cursor]...), Oracle: orc}
	if oerr != nil {
		cr.Detail = "model extraction failed: " + oerr.Error()
	}
	e.Violations = append(e.Violations, cr)
}

func (e *Exec) cover(label string) {
	if _, ok := e.Covers[label]; ok {
		return
	}
	orc, err := e.extractOracle()
	if err != nil {
		e.Notes["cover "+label+": "+err.Error()] = true
		return
	}
	e.Covers[label] = &CoverResult{Label: label, Decisions: append([]int(nil), e.path.decisions[:e.path.cursor]...), Oracle: orc}
}

// extractOracle solves pc ∧ extra and evaluates every nondet site.
func (e *Exec) extractOracle(extra ...*smt.Term) (map[string]interface{}, error) {
	p := e.path
	// realisability: distinct input atoms are distinct strings
	if ext := e.extAxioms(); len(ext) > 0 {
		withExt := append(append([]*smt.Term{}, extra...), ext...)
		if r, _, err := e.solve(withExt, nil); err == nil && r == smt.Sat {
			extra = withExt
		} else {
			e.Notes["a model exists only with two distinct atoms holding equal bytes (extensionality not derivable on this path): the witness/counterexample may not replay"] = true
		}
	}
	// prefer small numbers (they are what the exact parts of the stubs - decimal strings, counters -
	// are about, and they read better in a report); dropped when the path needs large ones
	{
		var smallNum []*smt.Term
		for _, ns := range p.nondets {
			if ns.Kind == "u64" && ns.Term != nil && ns.Term.Sort.Kind == smt.KBV && ns.Term.Sort.Width == 64 {
				smallNum = append(smallNum, smt.ULe(ns.Term, smt.Const(99, 64)))
			}
		}
		if len(smallNum) > 0 {
			if r, _, err := e.solve(append(append([]*smt.Term{}, extra...), smallNum...), nil); err == nil && r == smt.Sat {
				extra = append(append([]*smt.Term{}, extra...), smallNum...)
			}
		}
	}
	// prefer small models: bound every input length, relax if unsat
	for _, lim := range []uint64{2, 8, 40} {
		var small []*smt.Term
		for _, ns := range p.nondets {
			switch ns.Kind {
			case "bytes", "string":
				small = append(small, smt.ULe(ns.Len, smt.Const(lim, 64)))
			case "atom":
				small = append(small, smt.ULe(strlenOf(ns.Term), smt.Const(lim+20, 64)))
			}
		}
		if len(small) == 0 {
			break
		}
		if r, _, err := e.solve(append(append([]*smt.Term{}, extra...), small...), nil); err == nil && r == smt.Sat {
			extra = append(append([]*smt.Term{}, extra...), small...)
			break
		}
	}
	// phase 1: scalars and lengths
	var q []*smt.Term
	type slot struct {
		site int
		what string
	}
	var slots []slot
	for i, ns := range p.nondets {
		switch ns.Kind {
		case "bytes", "string":
			q = append(q, ns.Len)
			slots = append(slots, slot{i, "len"})
		case "atom":
			q = append(q, strlenOf(ns.Term))
			slots = append(slots, slot{i, "len"})
		default:
			q = append(q, ns.Term)
			slots = append(slots, slot{i, "val"})
		}
	}
	if len(q) == 0 {
		r, _, err := e.solve(extra, nil)
		if err != nil {
			return nil, err
		}
		if r != smt.Sat {
			return nil, fmt.Errorf("path condition not sat (%v)", r)
		}
		return map[string]interface{}{}, nil
	}
	r, vals, err := e.solve(extra, q)
	if err != nil {
		return nil, err
	}
	if r != smt.Sat {
		return nil, fmt.Errorf("model query returned %v", r)
	}
	out := map[string]interface{}{}
	lens := map[int]uint64{}
	var pin []*smt.Term
	for k, sl := range slots {
		ns := p.nondets[sl.site]
		v, ok := smt.ParseBV(vals[k])
		if !ok {
			return nil, fmt.Errorf("cannot parse value %q for %s", vals[k], ns.Key)
		}
		switch sl.what {
		case "len":
			if v > 1<<16 {
				v = 1 << 16
			}
			lens[sl.site] = v
			if ns.Kind == "atom" {
				pin = append(pin, smt.Eq(strlenOf(ns.Term), smt.Const(v, 64)))
			} else {
				pin = append(pin, smt.Eq(ns.Len, smt.Const(v, 64)))
			}
		default:
			switch ns.Kind {
			case "bool":
				out[ns.Key] = v != 0
			case "i64", "int":
				out[ns.Key] = fmt.Sprintf("%d", int64(v))
			default:
				out[ns.Key] = fmt.Sprintf("%d", v)
			}
			pin = append(pin, smt.Eq(ns.Term, constLike(ns.Term, v)))
		}
	}
	// phase 2: bytes, with lengths and scalars pinned
	extra2 := append(append([]*smt.Term{}, extra...), pin...)
	var q2 []*smt.Term
	type bslot struct {
		site int
		idx  int
	}
	var bslots []bslot
	for i, ns := range p.nondets {
		n, ok := lens[i]
		if !ok {
			continue
		}
		if n > 4096 {
			n = 4096
		}
		for j := 0; j < int(n); j++ {
			var t *smt.Term
			if ns.Kind == "atom" {
				t = FnAtom{ns.Term}.Read(c64(j))
			} else {
				t = smt.Select(ns.Arr, c64(j))
			}
			q2 = append(q2, t)
			bslots = append(bslots, bslot{i, j})
		}
	}
	bufs := map[int][]byte{}
	for i, n := range lens {
		if n > 4096 {
			// long inputs: content beyond 4096 is padding 'a'
			b := make([]byte, n)
			for k := range b {
				b[k] = 'a'
			}
			bufs[i] = b
		} else {
			bufs[i] = make([]byte, n)
		}
	}
	if len(q2) > 0 {
		r, vals, err := e.solve(extra2, q2)
		if err != nil {
			return nil, err
		}
		if r != smt.Sat {
			return nil, fmt.Errorf("pinned model query returned %v", r)
		}
		for k, bs := range bslots {
			v, ok := smt.ParseBV(vals[k])
			if !ok {
				return nil, fmt.Errorf("cannot parse byte %q", vals[k])
			}
			bufs[bs.site][bs.idx] = byte(v)
		}
	}
	for i, b := range bufs {
		ns := p.nondets[i]
		ints := make([]int, len(b))
		for k, x := range b {
			ints[k] = int(x)
		}
		out[ns.Key] = ints
	}
	return out, nil
}

func constLike(t *smt.Term, v uint64) *smt.Term {
	if t.Sort.Kind == smt.KBool {
		return smt.BoolConst(v != 0)
	}
	return smt.Const(v, t.Sort.Width)
}

// ---------------- summary ----------------

func (e *Exec) SortedChecks() []string {
	var ks []string
	for k := range e.Checks {
		ks = append(ks, k)
	}
	sort.Strings(ks)
	return ks
}

func typeString(t types.Type) string { return types.TypeString(t, nil) }

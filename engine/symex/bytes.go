package symex

import (
	"fmt"

	"verif/engine/smt"
)

// ByteFn is an immutable description of buffer contents: a function from a
// BV64 index to a BV8 term. Reads are expanded down to base selects, so all
// queries stay quantifier-free.
type ByteFn interface {
	Read(i *smt.Term) *smt.Term
}

type FnArr struct{ A *smt.Term } // nondeterministic input: select(A, i)
type FnZero struct{}
type FnConst struct{ B string }
type FnWrite struct {
	Old ByteFn
	Idx *smt.Term
	Val *smt.Term
}
type FnCopy struct { // i in [DOff, DOff+N) -> Src[i-DOff+SOff]
	Old  ByteFn
	DOff *smt.Term
	Src  ByteFn
	SOff *smt.Term
	N    *smt.Term
}
type FnAtom struct{ T *smt.Term } // opaque string atom: strbyte(T, i)
// FnShift views Src at offset: i -> Src[i+Off]
type FnShift struct {
	Src ByteFn
	Off *smt.Term
}

func (f FnArr) Read(i *smt.Term) *smt.Term { return smt.Select(f.A, i) }
func (FnZero) Read(i *smt.Term) *smt.Term  { return smt.Const(0, 8) }
func (f FnConst) Read(i *smt.Term) *smt.Term {
	if i.IsConst() {
		if i.Val < uint64(len(f.B)) {
			return smt.Const(uint64(f.B[i.Val]), 8)
		}
		return smt.Const(0, 8)
	}
	// symbolic index into a literal: ite chain
	r := smt.Const(0, 8)
	for k := len(f.B) - 1; k >= 0; k-- {
		r = smt.Ite(smt.Eq(i, c64(k)), smt.Const(uint64(f.B[k]), 8), r)
	}
	return r
}
func (f FnWrite) Read(i *smt.Term) *smt.Term {
	c := smt.Eq(i, f.Idx)
	if c.IsTrue() {
		return f.Val
	}
	if c.IsFalse() {
		return f.Old.Read(i)
	}
	return smt.Ite(c, f.Val, f.Old.Read(i))
}
func (f FnCopy) Read(i *smt.Term) *smt.Term {
	in := smt.And(smt.ULe(f.DOff, i), smt.ULt(smt.Sub(i, f.DOff), f.N))
	if in.IsFalse() {
		return f.Old.Read(i)
	}
	src := f.Src.Read(smt.Add(smt.Sub(i, f.DOff), f.SOff))
	if in.IsTrue() {
		return src
	}
	return smt.Ite(in, src, f.Old.Read(i))
}
func (f FnAtom) Read(i *smt.Term) *smt.Term {
	return smt.UF("strbyte", "(Str (_ BitVec 64)) (_ BitVec 8)", smt.BV8, f.T, i)
}
func (f FnShift) Read(i *smt.Term) *smt.Term { return f.Src.Read(smt.Add(i, f.Off)) }

func strlenOf(t *smt.Term) *smt.Term {
	return smt.UF("strlen", "(Str) (_ BitVec 64)", smt.BV64, t)
}

// view is a common description of a string or byte slice region.
type view struct {
	Fn       ByteFn
	Off, Len *smt.Term
}

func (v view) at(i *smt.Term) *smt.Term { return v.Fn.Read(smt.Add(v.Off, i)) }

// wholeAtom reports whether the view is exactly an atom.
func (v view) wholeAtom() (*smt.Term, bool) {
	a, ok := v.Fn.(FnAtom)
	if !ok {
		return nil, false
	}
	if v.Off.IsConst() && v.Off.Val == 0 && v.Len == strlenOf(a.T) {
		return a.T, true
	}
	return nil, false
}

func strView(s Str) view { return view{s.Fn, s.Off, s.Len} }
func bytesView(b Bytes) view {
	if b.Nil || b.Buf == nil {
		return view{FnConst{""}, c0, c0}
	}
	return view{b.Buf.Fn, b.Off, b.Len}
}

func (e *Exec) newBuf(fn ByteFn, size *smt.Term) *Buf {
	e.path.nextObj++
	return &Buf{ID: e.path.nextObj, Fn: fn, Size: size}
}

// normalizeFn returns a ByteFn whose index 0 corresponds to v.Off.
func (v view) normalized() ByteFn {
	if v.Off.IsConst() && v.Off.Val == 0 {
		return v.Fn
	}
	return FnShift{v.Fn, v.Off}
}

func constStr(s string) Str {
	return Str{Fn: FnConst{s}, Off: c0, Len: c64(len(s))}
}

// concreteString returns the Go string if the view is fully concrete.
func (v view) concrete() (string, bool) {
	if !v.Len.IsConst() || !v.Off.IsConst() {
		return "", false
	}
	n := int(v.Len.Val)
	if n > 1<<16 {
		return "", false
	}
	out := make([]byte, n)
	for i := 0; i < n; i++ {
		t := v.at(c64(i))
		if !t.IsConst() {
			return "", false
		}
		out[i] = byte(t.Val)
	}
	return string(out), true
}

const maxExpandEq = 96

// viewEq returns a Bool term that is true iff the two views hold equal byte
// sequences. For symbolic lengths it introduces a fresh Boolean with a Skolem
// index for the negative side and registers the pair for targeted
// instantiation of the positive side.
func (e *Exec) viewEq(a, b view) *smt.Term {
	if a.Fn == b.Fn && a.Off == b.Off && a.Len == b.Len {
		return smt.True
	}
	if ta, ok := a.wholeAtom(); ok {
		if tb, ok := b.wholeAtom(); ok {
			return smt.Eq(ta, tb)
		}
	}
	// concatenations: cancel syntactically identical leading / trailing parts
	if a.Off == c0 && b.Off == c0 && e.path.concats != nil {
		pa, pb := e.partsOf(a), e.partsOf(b)
		if len(pa) > 1 || len(pb) > 1 {
			for len(pa) > 0 && len(pb) > 0 && pa[0] == pb[0] {
				pa, pb = pa[1:], pb[1:]
			}
			for len(pa) > 0 && len(pb) > 0 && pa[len(pa)-1] == pb[len(pb)-1] {
				pa, pb = pa[:len(pa)-1], pb[:len(pb)-1]
			}
			switch {
			case len(pa) == 0 && len(pb) == 0:
				return smt.True
			case len(pa) == 0 || len(pb) == 0:
				rest := pa
				if len(rest) == 0 {
					rest = pb
				}
				var cs []*smt.Term
				for _, r := range rest {
					cs = append(cs, smt.Eq(r.Len, c0))
				}
				return smt.And(cs...)
			case len(pa) == 1 && len(pb) == 1:
				return e.viewEq(pa[0], pb[0])
			}
		}
	}
	// one side of concrete length: expand
	if b.Len.IsConst() && !a.Len.IsConst() {
		a, b = b, a
	}
	if a.Len.IsConst() && a.Len.Val <= maxExpandEq {
		n := int(a.Len.Val)
		cs := []*smt.Term{smt.Eq(a.Len, b.Len)}
		if cs[0].IsFalse() {
			return smt.False
		}
		for i := 0; i < n; i++ {
			c := smt.Eq(a.at(c64(i)), b.at(c64(i)))
			if c.IsFalse() {
				return smt.False
			}
			cs = append(cs, c)
		}
		return smt.And(cs...)
	}
	// same function & offset: equal iff lengths equal
	if a.Fn == b.Fn && a.Off == b.Off {
		return smt.Eq(a.Len, b.Len)
	}
	// bounded lengths: exact expansion (both polarities), so that models are realisable
	if m, ok := e.smallMax(a.Len, b.Len); ok {
		cs := []*smt.Term{smt.Eq(a.Len, b.Len)}
		for i := 0; i < m; i++ {
			cs = append(cs, smt.Implies(smt.ULt(c64(i), a.Len), smt.Eq(a.at(c64(i)), b.at(c64(i)))))
		}
		return smt.And(cs...)
	}
	p := e.path
	p.nextSym++
	id := p.nextSym
	eq := smt.Var(fmt.Sprintf("eq!%d", id), smt.Bool)
	k := smt.Var(fmt.Sprintf("sk!%d", id), smt.BV64)
	// eq => len equal
	e.addAxiom(smt.Implies(eq, smt.Eq(a.Len, b.Len)))
	// !eq => lens differ or bytes at k differ
	e.addAxiom(smt.Or(eq, smt.Ne(a.Len, b.Len),
		smt.And(smt.ULt(k, a.Len), smt.Ne(a.at(k), b.at(k)))))
	p.eqs = append(p.eqs, eqRecord{eq: eq, a: a, b: b})
	p.idxTerms = append(p.idxTerms, k)
	return eq
}

func sameFn(a, b ByteFn) bool {
	switch x := a.(type) {
	case FnArr:
		y, ok := b.(FnArr)
		return ok && x.A == y.A
	case FnAtom:
		y, ok := b.(FnAtom)
		return ok && x.T == y.T
	}
	return false
}

type eqRecord struct {
	eq     *smt.Term
	a, b   view
	proven bool // established by a discharged check: instances are redundant
}

// instantiations returns the positive-side instances eq ∧ i<len ⇒ a[i]=b[i]
// for every registered equality and every index term on the path.
func (p *Path) instantiations() []*smt.Term {
	var out []*smt.Term
	for _, r := range p.eqs {
		if r.proven {
			continue
		}
		idxs := append([]*smt.Term{c0}, p.idxTerms...)
		for _, i := range idxs {
			out = append(out, smt.Implies(smt.And(r.eq, smt.ULt(i, r.a.Len)), smt.Eq(r.a.at(i), r.b.at(i))))
		}
		// last byte
		last := smt.Sub(r.a.Len, c1)
		out = append(out, smt.Implies(smt.And(r.eq, smt.Ne(r.a.Len, c0)), smt.Eq(r.a.at(last), r.b.at(last))))
	}
	return out
}

// hasPrefixTerm: b is a prefix of a.
func (e *Exec) hasPrefixTerm(a, pre view) *smt.Term {
	// syntactic: pre is a leading run of the parts a was concatenated from
	if a.Off == c0 && pre.Off == c0 {
		pa, pp := e.partsOf(a), e.partsOf(pre)
		if len(pp) <= len(pa) {
			same := true
			for i := range pp {
				if pp[i] != pa[i] {
					same = false
					break
				}
			}
			if same {
				return smt.True
			}
		}
	}
	if pre.Len.IsConst() && pre.Len.Val <= maxExpandEq {
		n := int(pre.Len.Val)
		cs := []*smt.Term{smt.ULe(pre.Len, a.Len)}
		for i := 0; i < n; i++ {
			cs = append(cs, smt.Eq(a.at(c64(i)), pre.at(c64(i))))
		}
		return smt.And(cs...)
	}
	sub := view{a.Fn, a.Off, pre.Len}
	return smt.And(smt.ULe(pre.Len, a.Len), e.viewEq(sub, pre))
}

// partsOf returns the concatenation provenance of a view (itself if none).
func (e *Exec) partsOf(v view) []view {
	if ps, ok := e.path.concats[v]; ok {
		return ps
	}
	return []view{v}
}

const smallEqMax = 130

// smallMax returns a bound <= smallEqMax on min(la, lb) if one can be
// established (statically, or by a few feasibility probes for atoms).
func (e *Exec) smallMax(la, lb *smt.Term) (int, bool) {
	if e.reason == "" {
		e.reason = "smallmax"
		defer func() { e.reason = "" }()
	}
	if e.initMode {
		return 0, false
	}
	best := -1
	unknownStatic := false
	for _, l := range []*smt.Term{la, lb} {
		if sm, ok := e.staticMax(l); ok {
			if sm <= smallEqMax && (best < 0 || int(sm) < best) {
				best = int(sm)
			}
		} else {
			unknownStatic = true
		}
	}
	if best >= 0 {
		return best, true
	}
	if !unknownStatic {
		return 0, false
	}
	key := fmt.Sprintf("smallmax:%d:%d:%d", la.ID(), lb.ID(), len(e.path.pc))
	if v, ok := e.path.extra[key].(int); ok {
		return v, v >= 0
	}
	res := -1
	for _, l := range []*smt.Term{la, lb} {
		if _, ok := e.staticMax(l); ok {
			continue
		}
		for _, T := range []uint64{16, 72, smallEqMax} {
			if e.feasible(smt.UGt(l, smt.Const(T, 64))) == smt.Unsat {
				if res < 0 || int(T) < res {
					res = int(T)
				}
				break
			}
		}
	}
	e.path.extra[key] = res
	return res, res >= 0
}

// bytesEq: equality of two []byte values; modelled encodings (blobs) are equal
// iff they encode deep-equal values of the same kind.
func (e *Exec) bytesEq(a, b Bytes) *smt.Term {
	if a.Blob != nil && b.Blob != nil {
		return e.deepEq(a, b)
	}
	return e.viewEq(bytesView(a), bytesView(b))
}

// Package symex is a symbolic interpreter for go/ssa functions.
package symex

import (
	"fmt"
	"go/types"

	"golang.org/x/tools/go/ssa"

	"verif/engine/smt"
)

// Value is a symbolic Go value. Concrete shapes:
//
//	*smt.Term       integers (BV) and booleans (Bool)
//	Ptr             pointer to a location inside an Obj (or nil)
//	BytePtr         pointer to one byte of a Buf
//	*Struct         struct value (immutable, persistent update)
//	*Array          array value (immutable, persistent update)
//	Slice           slice of non-byte elements, concrete geometry
//	Bytes           []byte view with symbolic geometry
//	Str             string view with symbolic geometry
//	Iface           interface value with concrete dynamic type
//	*Func           function value / closure / bound method
//	Tuple           multiple results
//	*MapObj         map reference (nil for nil map)
//	Opaque          modelled library value (context, store, time, error ...)
//	Poison          result of an unmodelled call executed in init mode
type Value interface{}

type Obj struct {
	ID     int
	Val    Value
	Typ    types.Type
	Name   string // for globals
	Global bool
	Pre    bool // existed before the entry call (global or reachable from one)
	// Released: the object was handed back to a sync.Pool (another goroutine may own it now)
	Released bool
}

type Ptr struct {
	Obj  *Obj
	Path []int
}

func (p Ptr) IsNil() bool { return p.Obj == nil }

type BytePtr struct {
	Buf *Buf
	Idx *smt.Term
}

type Struct struct {
	Fields []Value
}

type Array struct {
	Elems []Value
}

type Slice struct {
	Arr           *Obj // Val is *Array
	Off, Len, Cap int
	Nil           bool
}

// Buf is a mutable byte buffer object.
type Buf struct {
	ID   int
	Fn   ByteFn
	Size *smt.Term // allocation size (BV64)
	Pre  bool
	Name string
	// Released: the buffer belongs to an object that was handed back to a sync.Pool
	Released bool
}

type Bytes struct {
	Buf           *Buf
	Off, Len, Cap *smt.Term
	Nil           bool
	Blob          *Blob // non-nil when this []byte is a codec blob
	Sig           *SigInfo // non-nil when this []byte is a signature made by vSign
	Segs          []KItem // non-nil when this []byte is a structured key (compkey summary)
}

// ByteArr is a [N]byte value; Buf is its storage. Loads and stores of whole
// arrays clone the Buf (value semantics).
type ByteArr struct {
	Buf *Buf
	N   int
}

type Str struct {
	Fn       ByteFn
	Off, Len *smt.Term
}

type Iface struct {
	Typ types.Type // dynamic type; nil => nil interface
	Val Value
}

type Func struct {
	Fn       *ssa.Function
	Bindings []Value
	Recv     Value  // for bound methods of stub objects
	Stub     string // name of intrinsic/stub when Fn == nil
}

type Tuple []Value

type MapObj struct {
	Keys []Value
	Vals []Value
	KT   types.Type
	VT   types.Type
	Pre  bool   // exists before the entry call (keeper field, package variable)
	Name string
}

type Opaque struct {
	Kind string
	Data interface{}
}

type Poison struct{ Why string }

// Blob is the model of a protobuf-encoded value.
type Blob struct {
	Typ    types.Type // struct type marshalled
	Val    Value      // deep copy of the struct value
	LenPfx bool       // length-prefixed encoding
	Kind   string     // "" = protobuf bytes, "json" = amino JSON
	Len    *smt.Term
	ID     int
}

var (
	c0  = smt.Const(0, 64)
	c1  = smt.Const(1, 64)
	c64 = func(n int) *smt.Term { return smt.Const(uint64(int64(n)), 64) }
)

func isByte(t types.Type) bool {
	b, ok := t.Underlying().(*types.Basic)
	return ok && (b.Kind() == types.Uint8)
}

func isByteSlice(t types.Type) bool {
	s, ok := t.Underlying().(*types.Slice)
	return ok && isByte(s.Elem())
}

func isString(t types.Type) bool {
	b, ok := t.Underlying().(*types.Basic)
	return ok && b.Info()&types.IsString != 0
}

func intWidth(t types.Type) (int, bool, bool) {
	b, ok := t.Underlying().(*types.Basic)
	if !ok {
		return 0, false, false
	}
	switch b.Kind() {
	case types.Int8:
		return 8, true, true
	case types.Int16:
		return 16, true, true
	case types.Int32:
		return 32, true, true
	case types.Int, types.Int64, types.UntypedInt, types.UntypedRune:
		return 64, true, true
	case types.Uint8:
		return 8, false, true
	case types.Uint16:
		return 16, false, true
	case types.Uint32:
		return 32, false, true
	case types.Uint, types.Uint64, types.Uintptr:
		return 64, false, true
	}
	return 0, false, false
}

func isBool(t types.Type) bool {
	b, ok := t.Underlying().(*types.Basic)
	return ok && b.Info()&types.IsBoolean != 0
}

// opaqueNamed lists named struct types that are modelled, not executed.
func opaqueKindOf(t types.Type) string {
	n, ok := t.(*types.Named)
	if !ok {
		if a, ok := t.(*types.Alias); ok {
			return opaqueKindOf(types.Unalias(a))
		}
		return ""
	}
	if n.Obj().Pkg() == nil {
		return ""
	}
	switch n.Obj().Pkg().Path() + "." + n.Obj().Name() {
	case "time.Time":
		return "time"
	case "github.com/cosmos/cosmos-sdk/types.Context":
		return "ctx"
	case "github.com/cosmos/cosmos-sdk/store/prefix.Store":
		return "store"
	case "sync.RWMutex", "sync.Mutex":
		return "mutex"
	case "sync.Map":
		return "syncmap"
	case "cosmossdk.io/math.Int":
		return "sdkint"
	case "github.com/cosmos/cosmos-sdk/types.Coin":
		return "coin"
	case "strings.Builder":
		return "builder"
	case "github.com/cosmos/cosmos-sdk/x/nft/keeper.Keeper":
		return ""
	}
	return ""
}

// zero returns the zero value of a type.
func (e *Exec) zero(t types.Type) Value {
	if k := opaqueKindOf(t); k != "" {
		switch k {
		case "time":
			return Opaque{Kind: "time", Data: c0}
		case "ctx":
			return Opaque{Kind: "ctx", Data: nil}
		case "mutex":
			return Opaque{Kind: "mutex", Data: nil}
		case "syncmap":
			return Opaque{Kind: "syncmap", Data: nil}
		case "builder":
			return Opaque{Kind: "builder", Data: nil}
		case "sdkint":
			return Opaque{Kind: "sdkint", Data: nil}
		case "coin":
			return Opaque{Kind: "coin", Data: nil}
		case "store":
			return Opaque{Kind: "store", Data: nil}
		}
	}
	switch u := t.Underlying().(type) {
	case *types.Basic:
		if w, _, ok := intWidth(t); ok {
			return smt.Const(0, w)
		}
		if isBool(t) {
			return smt.False
		}
		if isString(t) {
			return Str{Fn: FnConst{""}, Off: c0, Len: c0}
		}
		if u.Kind() == types.UnsafePointer {
			return Ptr{}
		}
		if u.Kind() == types.UntypedNil {
			return Ptr{}
		}
		if u.Info()&types.IsFloat != 0 {
			return Opaque{Kind: "float", Data: 0.0}
		}
		panic(engineErr("zero: unsupported basic type %v", t))
	case *types.Pointer:
		return Ptr{}
	case *types.Struct:
		fs := make([]Value, u.NumFields())
		for i := range fs {
			fs[i] = e.zero(u.Field(i).Type())
		}
		return &Struct{Fields: fs}
	case *types.Array:
		if isByte(u.Elem()) {
			// byte arrays are Buf-backed
			b := e.newBuf(FnZero{}, c64(int(u.Len())))
			return ByteArr{Buf: b, N: int(u.Len())}
		}
		es := make([]Value, u.Len())
		for i := range es {
			es[i] = e.zero(u.Elem())
		}
		return &Array{Elems: es}
	case *types.Slice:
		if isByte(u.Elem()) {
			return Bytes{Nil: true, Off: c0, Len: c0, Cap: c0}
		}
		return Slice{Nil: true}
	case *types.Interface:
		return Iface{}
	case *types.Map:
		return (*MapObj)(nil)
	case *types.Signature:
		return (*Func)(nil)
	case *types.Chan:
		return Opaque{Kind: "chan"}
	case *types.Tuple:
		tv := make(Tuple, u.Len())
		for i := range tv {
			tv[i] = e.zero(u.At(i).Type())
		}
		return tv
	}
	panic(engineErr("zero: unsupported type %v", t))
}

// get navigates a value by path.
func getPath(v Value, path []int) Value {
	for _, i := range path {
		switch x := v.(type) {
		case *Struct:
			v = x.Fields[i]
		case *Array:
			v = x.Elems[i]
		default:
			panic(engineErr("getPath: cannot index %T with %d", v, i))
		}
	}
	return v
}

// setPath returns v with the sub-value at path replaced (persistent).
func setPath(v Value, path []int, nv Value) Value {
	if len(path) == 0 {
		return nv
	}
	i := path[0]
	switch x := v.(type) {
	case *Struct:
		fs := make([]Value, len(x.Fields))
		copy(fs, x.Fields)
		fs[i] = setPath(fs[i], path[1:], nv)
		return &Struct{Fields: fs}
	case *Array:
		es := make([]Value, len(x.Elems))
		copy(es, x.Elems)
		es[i] = setPath(es[i], path[1:], nv)
		return &Array{Elems: es}
	}
	panic(engineErr("setPath: cannot index %T", v))
}

func appendPath(p []int, i int) []int {
	np := make([]int, len(p)+1)
	copy(np, p)
	np[len(p)] = i
	return np
}

type engineError struct{ msg string }

func (e engineError) Error() string { return e.msg }

func engineErr(format string, args ...interface{}) engineError {
	return engineError{fmt.Sprintf(format, args...)}
}

package symex

import "strings"

// Concrete bech32 decoding (BIP-173) for literal address strings, so that the
// validity of constants such as the burn address is decided, not assumed.

const bech32Charset = "qpzry9x8gf2tvdw0s3jn54khce6mua7l"

func bech32Polymod(values []byte) uint32 {
	gen := []uint32{0x3b6a57b2, 0x26508e6d, 0x1ea119fa, 0x3d4233dd, 0x2a1462b3}
	chk := uint32(1)
	for _, v := range values {
		b := chk >> 25
		chk = (chk&0x1ffffff)<<5 ^ uint32(v)
		for i := 0; i < 5; i++ {
			if (b>>uint(i))&1 == 1 {
				chk ^= gen[i]
			}
		}
	}
	return chk
}

// bech32DecodeLiteral returns (hrp, data bytes, ok).
func bech32DecodeLiteral(s string) (string, []byte, bool) {
	if len(s) < 8 || len(s) > 1023 {
		return "", nil, false
	}
	lower, upper := strings.ToLower(s), strings.ToUpper(s)
	if s != lower && s != upper {
		return "", nil, false
	}
	s = lower
	pos := strings.LastIndexByte(s, '1')
	if pos < 1 || pos+7 > len(s) {
		return "", nil, false
	}
	hrp := s[:pos]
	var data []byte
	for i := pos + 1; i < len(s); i++ {
		d := strings.IndexByte(bech32Charset, s[i])
		if d < 0 {
			return "", nil, false
		}
		data = append(data, byte(d))
	}
	var exp []byte
	for i := 0; i < len(hrp); i++ {
		if hrp[i] < 33 || hrp[i] > 126 {
			return "", nil, false
		}
		exp = append(exp, hrp[i]>>5)
	}
	exp = append(exp, 0)
	for i := 0; i < len(hrp); i++ {
		exp = append(exp, hrp[i]&31)
	}
	if bech32Polymod(append(exp, data...)) != 1 {
		return "", nil, false
	}
	data = data[:len(data)-6]
	// convert 5-bit groups to bytes
	acc, bits := uint32(0), uint(0)
	var out []byte
	for _, v := range data {
		acc = acc<<5 | uint32(v)
		bits += 5
		for bits >= 8 {
			bits -= 8
			out = append(out, byte(acc>>bits))
		}
	}
	if bits >= 5 || (acc<<(8-bits))&0xff != 0 {
		return "", nil, false
	}
	return hrp, out, true
}

// bech32EncodeLiteral is the concrete encoder for byte strings that are fully known on a path.
func bech32EncodeLiteral(hrp string, data []byte) string {
	var five []byte
	acc, bits := uint32(0), uint(0)
	for _, b := range data {
		acc = acc<<8 | uint32(b)
		bits += 8
		for bits >= 5 {
			bits -= 5
			five = append(five, byte(acc>>bits)&31)
		}
	}
	if bits > 0 {
		five = append(five, byte(acc<<(5-bits))&31)
	}
	var exp []byte
	for i := 0; i < len(hrp); i++ {
		exp = append(exp, hrp[i]>>5)
	}
	exp = append(exp, 0)
	for i := 0; i < len(hrp); i++ {
		exp = append(exp, hrp[i]&31)
	}
	values := append(append(exp, five...), 0, 0, 0, 0, 0, 0)
	mod := bech32Polymod(values) ^ 1
	var sb strings.Builder
	sb.WriteString(hrp)
	sb.WriteByte('1')
	for _, v := range five {
		sb.WriteByte(bech32Charset[v])
	}
	for i := 0; i < 6; i++ {
		sb.WriteByte(bech32Charset[(mod>>uint(5*(5-i)))&31])
	}
	return sb.String()
}

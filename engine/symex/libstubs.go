package symex

import (
	"strconv"
	"fmt"
	"go/types"
	"regexp"
	"strings"

	"golang.org/x/tools/go/ssa"

	"verif/engine/smt"
)

func init() {
	for _, f := range []string{
		"(github.com/cosmos/cosmos-sdk/types.AccAddress).Bytes",
		"(github.com/cosmos/cosmos-sdk/types.AccAddress).Empty",
		"(github.com/cosmos/cosmos-sdk/types.AccAddress).Equals",
		"github.com/cosmos/cosmos-sdk/types.Uint64ToBigEndian",
		"github.com/cosmos/cosmos-sdk/types.BigEndianToUint64",
		"(encoding/binary.bigEndian).PutUint64",
		"(encoding/binary.bigEndian).Uint64",
		"(encoding/binary.bigEndian).PutUint32",
		"(encoding/binary.bigEndian).Uint32",
		"github.com/cosmos/cosmos-sdk/types/address.MustLengthPrefix",
		"github.com/cosmos/cosmos-sdk/types/address.LengthPrefix",
	} {
		execFuncs[f] = true
	}

	// ---- errors ----
	mkErr := func(tag string) stubFn {
		return func(e *Exec, fn *ssa.Function, args []Value) Value { return e.newErr(tag) }
	}
	stubs["fmt.Errorf"] = mkErr("fmt.Errorf")
	stubs["errors.New"] = mkErr("errors.New")
	stubs["github.com/pkg/errors.New"] = mkErr("errors.New")
	stubs["github.com/pkg/errors.Errorf"] = mkErr("errors.Errorf")
	stubs["google.golang.org/grpc/status.Error"] = func(e *Exec, fn *ssa.Function, args []Value) Value {
		c := args[0].(*smt.Term)
		if c.IsConst() && c.Val == 0 {
			return nilErr()
		}
		return e.newErr(fmt.Sprintf("status(%d)", c.Val))
	}
	stubs["google.golang.org/grpc/status.Errorf"] = stubs["google.golang.org/grpc/status.Error"]
	wrap := func(e *Exec, fn *ssa.Function, args []Value) Value {
		if isNilIface(args[0]) {
			return nilErr()
		}
		tag := "wrapped"
		if i, ok := args[0].(Iface); ok {
			if o, ok := i.Val.(Opaque); ok {
				if ed, ok := o.Data.(*ErrData); ok {
					tag = ed.Tag
				}
			}
			if p, ok := i.Val.(Ptr); ok && p.Obj != nil {
				tag = p.Obj.Name
			}
		}
		return e.newErr("wrap(" + tag + ")")
	}
	stubs["cosmossdk.io/errors.Wrap"] = wrap
	stubs["cosmossdk.io/errors.Wrapf"] = wrap
	stubs["github.com/pkg/errors.Wrap"] = wrap
	stubs["github.com/pkg/errors.Wrapf"] = wrap
	stubs["github.com/cosmos/cosmos-sdk/types/errors.Wrap"] = wrap
	stubs["github.com/cosmos/cosmos-sdk/types/errors.Wrapf"] = wrap
	stubs["cosmossdk.io/errors.Register"] = func(e *Exec, fn *ssa.Function, args []Value) Value {
		cs, _ := e.goString(args[0])
		code := args[1].(*smt.Term)
		desc, _ := e.goString(args[2])
		o := e.newObj(nil, Opaque{Kind: "errsentinel", Data: fmt.Sprintf("%s/%d/%s", cs, code.Val, desc)})
		o.Name = fmt.Sprintf("err:%s/%d", cs, code.Val)
		o.Pre = false
		return Ptr{Obj: o}
	}
	stubs["github.com/cosmos/cosmos-sdk/types/errors.Register"] = stubs["cosmossdk.io/errors.Register"]
	stubs["(*cosmossdk.io/errors.Error).Error"] = func(e *Exec, fn *ssa.Function, args []Value) Value {
		return e.opaqueString("errtext")
	}
	stubs["(*cosmossdk.io/errors.Error).Wrap"] = func(e *Exec, fn *ssa.Function, args []Value) Value {
		return e.newErr("wrap(sentinel)")
	}
	stubs["(*cosmossdk.io/errors.Error).Wrapf"] = stubs["(*cosmossdk.io/errors.Error).Wrap"]
	stubs["errors.Is"] = func(e *Exec, fn *ssa.Function, args []Value) Value {
		panic(engineErr("errors.Is not modelled"))
	}

	// ---- fmt / log ----
	stubs["fmt.Sprintf"] = stubSprintf
	stubs["fmt.Sprint"] = func(e *Exec, fn *ssa.Function, args []Value) Value { return e.opaqueString("sprint") }
	stubs["fmt.Fprintf"] = func(e *Exec, fn *ssa.Function, args []Value) Value {
		return Tuple{c0, nilErr()}
	}
	stubs["fmt.Println"] = stubs["fmt.Fprintf"]
	stubs["fmt.Printf"] = stubs["fmt.Fprintf"]
	stubs["log.Printf"] = func(e *Exec, fn *ssa.Function, args []Value) Value { return nil }
	stubs["log.Println"] = stubs["log.Printf"]

	// ---- strings / bytes ----
	stubs["strings.HasPrefix"] = func(e *Exec, fn *ssa.Function, args []Value) Value {
		return e.hasPrefixTerm(strView(args[0].(Str)), strView(args[1].(Str)))
	}
	stubs["bytes.Equal"] = func(e *Exec, fn *ssa.Function, args []Value) Value {
		return e.bytesEq(args[0].(Bytes), args[1].(Bytes))
	}
	stubs["bytes.HasPrefix"] = func(e *Exec, fn *ssa.Function, args []Value) Value {
		return e.hasPrefixTerm(bytesView(args[0].(Bytes)), bytesView(args[1].(Bytes)))
	}
	stubs["strings.TrimSpace"] = func(e *Exec, fn *ssa.Function, args []Value) Value {
		st := args[0].(Str)
		sv := strView(st)
		if cs, isC := sv.concrete(); isC {
			return constStr(strings.TrimSpace(cs))
		}
		if t, isAtom := sv.wholeAtom(); isAtom && (containsTerm(e.bech32Atoms, t) || containsTerm(e.digitAtoms, t)) {
			e.Notes["stub contract: bech32 strings use [a-z0-9] and decimal strings use [0-9] (no white space to trim)"] = true
			return st
		}
		M, ok := e.feasibleMax(sv.Len)
		if !ok || M > 2048 {
			return e.opaqueString("trimspace")
		}
		if M > 160 {
			// long strings: the bounds of the trimmed part are Skolem constants with a definition
			// that is linear in M (no nested if-then-else): everything before lo and from hi on is
			// ASCII white space, the bytes at lo and hi-1 are not
			e.Notes["strings.TrimSpace on bounded strings: exact for ASCII white space (\\t \\n \\v \\f \\r space); non-ASCII Unicode spaces are treated as ordinary bytes"] = true
			isSp := func(b *smt.Term) *smt.Term {
				var cs []*smt.Term
				for _, c := range []byte{9, 10, 11, 12, 13, 32} {
					cs = append(cs, smt.Eq(b, smt.Const(uint64(c), 8)))
				}
				return smt.Or(cs...)
			}
			lo, hi := e.fresh("trimlo", smt.BV64), e.fresh("trimhi", smt.BV64)
			cs := []*smt.Term{smt.ULe(lo, hi), smt.ULe(hi, sv.Len)}
			for j := 0; j < M; j++ {
				sp := isSp(sv.at(c64(j)))
				cs = append(cs, smt.Or(smt.UGe(c64(j), lo), sp))
				cs = append(cs, smt.Or(smt.ULt(c64(j), hi), smt.UGe(c64(j), sv.Len), sp))
			}
			cs = append(cs, smt.Or(smt.Eq(lo, hi), smt.And(smt.Not(isSp(sv.at(lo))), smt.Not(isSp(sv.at(smt.Sub(hi, c1)))))))
			e.assume(smt.And(cs...))
			return Str{Fn: st.Fn, Off: smt.Add(st.Off, lo), Len: smt.Sub(hi, lo)}
		}
		// the sub-string between the first and the last byte that is not ASCII white space
		// (Unicode white space outside ASCII is not modelled; a model that depends on it does not replay)
		e.Notes["strings.TrimSpace on bounded strings: exact for ASCII white space (\\t \\n \\v \\f \\r space); non-ASCII Unicode spaces are treated as ordinary bytes"] = true
		nonSpace := func(j int) *smt.Term {
			b := sv.at(c64(j))
			var cs []*smt.Term
			for _, c := range []byte{9, 10, 11, 12, 13, 32} {
				cs = append(cs, smt.Ne(b, smt.Const(uint64(c), 8)))
			}
			return smt.And(append(cs, smt.ULt(c64(j), sv.Len))...)
		}
		lo := sv.Len
		for j := M - 1; j >= 0; j-- {
			lo = smt.Ite(nonSpace(j), c64(j), lo)
		}
		hi := lo
		for j := 0; j < M; j++ {
			hi = smt.Ite(nonSpace(j), c64(j+1), hi)
		}
		return Str{Fn: st.Fn, Off: smt.Add(st.Off, lo), Len: smt.Sub(hi, lo)}
	}
	anyOf := func(name string, index bool) stubFn {
		return func(e *Exec, fn *ssa.Function, args []Value) Value {
			sv := strView(args[0].(Str))
			var set []byte
			switch c := args[1].(type) {
			case Str:
				cs, ok := strView(c).concrete()
				if !ok {
					panic(engineErr("%s with a non-constant character set", name))
				}
				set = []byte(cs)
			case *smt.Term:
				if !c.IsConst() {
					panic(engineErr("%s with a non-constant rune", name))
				}
				set = []byte{byte(c.Val)}
				if c.Val >= 0x80 {
					panic(engineErr("%s with a non-ASCII rune", name))
				}
			}
			for _, c := range set {
				if c >= 0x80 {
					panic(engineErr("%s with non-ASCII characters", name))
				}
			}
			if cs, isC := sv.concrete(); isC {
				i := strings.IndexAny(cs, string(set))
				if index {
					return smt.Const(uint64(int64(i)), 64)
				}
				return smt.BoolConst(i >= 0)
			}
			M, ok := e.feasibleMax(sv.Len)
			if !ok {
				panic(engineErr("%s on a string of unbounded length", name))
			}
			hit := func(j int) *smt.Term {
				b := sv.at(c64(j))
				var cs []*smt.Term
				for _, c := range set {
					cs = append(cs, smt.Eq(b, smt.Const(uint64(c), 8)))
				}
				return smt.And(smt.ULt(c64(j), sv.Len), smt.Or(cs...))
			}
			if index {
				res := smt.Const(^uint64(0), 64)
				for j := M - 1; j >= 0; j-- {
					res = smt.Ite(hit(j), c64(j), res)
				}
				return res
			}
			var alts []*smt.Term
			for j := 0; j < M; j++ {
				alts = append(alts, hit(j))
			}
			if len(alts) == 0 || len(set) == 0 {
				return smt.False
			}
			return smt.Or(alts...)
		}
	}
	// strings.Index / strings.Cut with a constant separator over a bounded string
	indexOf := func(e *Exec, name string, sv view, sep string) *smt.Term {
		M, ok := e.feasibleMax(sv.Len)
		if !ok || M > 300 {
			panic(engineErr("%s on a string of unbounded (or > 300 bytes) length", name))
		}
		res := smt.Const(^uint64(0), 64)
		for j := M - len(sep); j >= 0; j-- {
			cs := []*smt.Term{smt.ULe(c64(j+len(sep)), sv.Len)}
			for k := 0; k < len(sep); k++ {
				cs = append(cs, smt.Eq(sv.at(c64(j+k)), smt.Const(uint64(sep[k]), 8)))
			}
			res = smt.Ite(smt.And(cs...), c64(j), res)
		}
		return res
	}
	stubs["strings.Index"] = func(e *Exec, fn *ssa.Function, args []Value) Value {
		sv := strView(args[0].(Str))
		sep, ok := strView(args[1].(Str)).concrete()
		if !ok || sep == "" {
			panic(engineErr("strings.Index with a non-constant or empty separator"))
		}
		if cs, isC := sv.concrete(); isC {
			return smt.Const(uint64(int64(strings.Index(cs, sep))), 64)
		}
		return indexOf(e, "strings.Index", sv, sep)
	}
	stubs["strings.Cut"] = func(e *Exec, fn *ssa.Function, args []Value) Value {
		st := args[0].(Str)
		sv := strView(st)
		sep, ok := strView(args[1].(Str)).concrete()
		if !ok || sep == "" {
			panic(engineErr("strings.Cut with a non-constant or empty separator"))
		}
		if cs, isC := sv.concrete(); isC {
			b, a, f := strings.Cut(cs, sep)
			return Tuple{constStr(b), constStr(a), smt.BoolConst(f)}
		}
		idx := indexOf(e, "strings.Cut", sv, sep)
		if e.branch(smt.Eq(idx, smt.Const(^uint64(0), 64))) {
			return Tuple{st, constStr(""), smt.False}
		}
		after := smt.Add(idx, c64(len(sep)))
		return Tuple{Str{Fn: st.Fn, Off: st.Off, Len: idx}, Str{Fn: st.Fn, Off: smt.Add(st.Off, after), Len: smt.Sub(st.Len, after)}, smt.True}
	}
	stubs["strings.ContainsAny"] = anyOf("strings.ContainsAny", false)
	stubs["strings.ContainsRune"] = anyOf("strings.ContainsRune", false)
	stubs["strings.IndexAny"] = anyOf("strings.IndexAny", true)
	stubs["strings.IndexRune"] = anyOf("strings.IndexRune", true)
	stubs["(*strings.Builder).WriteString"] = func(e *Exec, fn *ssa.Function, args []Value) Value {
		p := args[0].(Ptr)
		cur := e.load(p).(Opaque)
		var parts []Str
		if cur.Data != nil {
			parts = cur.Data.([]Str)
		}
		parts = append(append([]Str{}, parts...), args[1].(Str))
		e.store(p, Opaque{Kind: "builder", Data: parts})
		return Tuple{args[1].(Str).Len, nilErr()}
	}
	stubs["(*strings.Builder).String"] = func(e *Exec, fn *ssa.Function, args []Value) Value {
		cur := e.load(args[0].(Ptr)).(Opaque)
		out := constStr("")
		var parts []Str
		if cur.Data != nil {
			parts = cur.Data.([]Str)
		}
		for _, s := range parts {
			out = e.concat(out, s)
		}
		if len(parts) >= 1 {
			e.joins = append(e.joins, joinRec{out, parts})
		}
		return out
	}
	stubs["strings.Split"] = stubSplit

	// ---- strconv ----
	// strconv.FormatUint / ParseUint: an uninterpreted inverse pair *per base*, made exact for one-
	// and two-digit strings (so that a wrong base or a wrong radix shows with a small, natively
	// reproducible value); longer strings are only related through parse_b(format_b(x)) = x.
	digitChar := func(d *smt.Term) *smt.Term { // 64-bit digit value -> ASCII byte
		return smt.Ite(smt.ULt(d, c64(10)), smt.Extract(7, 0, smt.Add(d, c64('0'))), smt.Extract(7, 0, smt.Add(d, c64('a'-10))))
	}
	digitVal := func(ch *smt.Term, base uint64) (*smt.Term, *smt.Term) { // byte -> (valid, value)
		c := smt.ZExt(ch, 64)
		isNum := smt.And(smt.ULe(c64('0'), c), smt.ULe(c, c64('9')))
		isLow := smt.And(smt.ULe(c64('a'), c), smt.ULe(c, c64('z')))
		isUp := smt.And(smt.ULe(c64('A'), c), smt.ULe(c, c64('Z')))
		v := smt.Ite(isNum, smt.Sub(c, c64('0')), smt.Ite(isLow, smt.Sub(c, c64('a'-10)), smt.Sub(c, c64('A'-10))))
		return smt.And(smt.Or(isNum, isLow, isUp), smt.ULt(v, c64(int(base)))), v
	}
	stubs["strconv.FormatUint"] = func(e *Exec, fn *ssa.Function, args []Value) Value {
		v := args[0].(*smt.Term)
		bt := args[1].(*smt.Term)
		if !bt.IsConst() || bt.Val < 2 || bt.Val > 36 {
			panic(engineErr("strconv.FormatUint with a non-constant base"))
		}
		base := bt.Val
		if v.IsConst() {
			return constStr(strconv.FormatUint(v.Val, int(base))) // fully known value: the real formatting
		}
		sfx := fmt.Sprint(base)
		t := smt.UF("fmtuint"+sfx, "((_ BitVec 64)) Str", smt.StrS, v)
		key := fmt.Sprintf("fmtuint%s:%d", sfx, v.ID())
		if _, done := e.path.extra[key]; !done {
			e.path.extra[key] = true
			// ParseUint(FormatUint(x, b), b) = x
			e.addAxiom(smt.Eq(smt.UF("parseuint"+sfx, "(Str) (_ BitVec 64)", smt.BV64, t), v))
			e.addAxiom(smt.UF("parseuint_ok"+sfx, "(Str) Bool", smt.Bool, t))
			e.addAxiom(smt.And(smt.ULe(c1, strlenOf(t)), smt.ULe(strlenOf(t), c64(64))))
			b1, b2 := c64(int(base)), c64(int(base*base))
			by := func(i int) *smt.Term { return FnAtom{t}.Read(c64(i)) }
			// one digit
			e.addAxiom(smt.Implies(smt.ULt(v, b1), smt.And(smt.Eq(strlenOf(t), c1), smt.Eq(by(0), digitChar(v)))))
			// two digits: leading digit by case split (no division)
			hi := c0
			for d := int(base) - 1; d >= 1; d-- {
				hi = smt.Ite(smt.UGe(v, c64(d*int(base))), smt.Ite(smt.ULt(hi, c64(d)), c64(d), hi), hi)
			}
			lo := smt.Sub(v, smt.Mul(hi, b1))
			e.addAxiom(smt.Implies(smt.And(smt.UGe(v, b1), smt.ULt(v, b2)),
				smt.And(smt.Eq(strlenOf(t), c64(2)), smt.Eq(by(0), digitChar(hi)), smt.Eq(by(1), digitChar(lo)))))
			e.addAxiom(smt.Implies(smt.UGe(v, b2), smt.UGe(strlenOf(t), c64(3))))
			e.digitAtoms = append(e.digitAtoms, t)
		}
		e.Notes["stub strconv.FormatUint/ParseUint: uninterpreted inverse pair per base, exact for values below base^2 / strings of at most two digits"] = true
		return Str{Fn: FnAtom{t}, Off: c0, Len: strlenOf(t)}
	}
	stubs["strconv.ParseUint"] = func(e *Exec, fn *ssa.Function, args []Value) Value {
		s := args[0].(Str)
		bt := args[1].(*smt.Term)
		if !bt.IsConst() || bt.Val < 2 || bt.Val > 36 {
			panic(engineErr("strconv.ParseUint with a non-constant or zero base"))
		}
		base := bt.Val
		sfx := fmt.Sprint(base)
		sv := strView(s)
		if cs, isC := sv.concrete(); isC {
			bits := 64
			if bt2, ok := args[2].(*smt.Term); ok && bt2.IsConst() && bt2.Val > 0 && bt2.Val <= 64 {
				bits = int(bt2.Val)
			}
			n, err := strconv.ParseUint(cs, int(base), bits) // fully known string: the real parser
			if err != nil {
				return Tuple{c0, e.newErr("strconv.ParseUint")}
			}
			return Tuple{c64(int(n)), nilErr()}
		}
		t, ok := sv.wholeAtom()
		if !ok {
			t = e.atomOfView(sv)
		}
		okT := smt.UF("parseuint_ok"+sfx, "(Str) Bool", smt.Bool, t)
		val := smt.UF("parseuint"+sfx, "(Str) (_ BitVec 64)", smt.BV64, t)
		key := fmt.Sprintf("parseuint%s:%d", sfx, t.ID())
		if _, done := e.path.extra[key]; !done {
			e.path.extra[key] = true
			by := func(i int) *smt.Term { return FnAtom{t}.Read(c64(i)) }
			ok0, v0 := digitVal(by(0), base)
			ok1, v1 := digitVal(by(1), base)
			e.addAxiom(smt.Implies(smt.Eq(strlenOf(t), c0), smt.Not(okT)))
			e.addAxiom(smt.Implies(smt.Eq(strlenOf(t), c1), smt.And(smt.Eq(okT, ok0), smt.Implies(ok0, smt.Eq(val, v0)))))
			e.addAxiom(smt.Implies(smt.Eq(strlenOf(t), c64(2)), smt.And(smt.Eq(okT, smt.And(ok0, ok1)),
				smt.Implies(smt.And(ok0, ok1), smt.Eq(val, smt.Add(smt.Mul(v0, c64(int(base))), v1))))))
		}
		e.Notes["stub strconv.FormatUint/ParseUint: uninterpreted inverse pair per base, exact for values below base^2 / strings of at most two digits"] = true
		if e.branch(okT) {
			return Tuple{val, nilErr()}
		}
		return Tuple{c0, e.newErr("strconv.ParseUint")}
	}

	// ---- bech32 ----
	stubs["github.com/cosmos/cosmos-sdk/types.AccAddressFromBech32"] = stubAccFromBech32
	stubs["(github.com/cosmos/cosmos-sdk/types.AccAddress).String"] = func(e *Exec, fn *ssa.Function, args []Value) Value {
		b := args[0].(Bytes)
		bv := bytesView(b)
		if bv.Len.IsConst() && bv.Len.Val == 0 {
			return constStr("")
		}
		if cs, isC := bv.concrete(); isC && len(cs) <= 255 {
			return constStr(bech32EncodeLiteral("panacea", []byte(cs))) // fully known bytes: real encoding
		}
		t, ok := bv.wholeAtom()
		if !ok {
			t = e.atomOfView(bv)
		}
		if e.branch(smt.Eq(bv.Len, c0)) {
			return constStr("")
		}
		s := e.bech32Enc(t)
		return Str{Fn: FnAtom{s}, Off: c0, Len: strlenOf(s)}
	}
	stubs["github.com/cosmos/cosmos-sdk/types.VerifyAddressFormat"] = func(e *Exec, fn *ssa.Function, args []Value) Value {
		b := args[0].(Bytes)
		e.Notes["stub sdk.VerifyAddressFormat: error iff len=0 or len>255 (no custom verifier installed)"] = true
		if e.branch(smt.Or(smt.Eq(b.Len, c0), smt.UGt(b.Len, c64(255)))) {
			return e.newErr("VerifyAddressFormat")
		}
		return nilErr()
	}

	// ---- context ----
	stubs["github.com/cosmos/cosmos-sdk/types.UnwrapSDKContext"] = func(e *Exec, fn *ssa.Function, args []Value) Value {
		i := args[0].(Iface)
		if o, ok := i.Val.(Opaque); ok && o.Kind == "ctx" {
			return o
		}
		panic(engineErr("UnwrapSDKContext on %T", i.Val))
	}
	stubs["github.com/cosmos/cosmos-sdk/types.WrapSDKContext"] = func(e *Exec, fn *ssa.Function, args []Value) Value {
		return Iface{Typ: fn.Signature.Params().At(0).Type(), Val: args[0]}
	}
	stubs["(github.com/cosmos/cosmos-sdk/types.Context).BlockHeight"] = func(e *Exec, fn *ssa.Function, args []Value) Value {
		c, ok := args[0].(Opaque).Data.(*CtxData)
		if !ok || c == nil {
			panic(engineErr("BlockHeight of an unmodelled context"))
		}
		if c.BlockHeight == nil {
			c.BlockHeight = e.freshEnv("blockheight", smt.BV64)
			e.assume(smt.ULt(c.BlockHeight, smt.Const(1<<62, 64)))
			e.Notes["Context.BlockHeight: an arbitrary non-negative height, fixed per context (environment value; the native environments run at height 0)"] = true
		}
		return c.BlockHeight
	}
	stubs["(github.com/cosmos/cosmos-sdk/types.Context).BlockTime"] = func(e *Exec, fn *ssa.Function, args []Value) Value {
		c := args[0].(Opaque).Data.(*CtxData)
		return Opaque{Kind: "time", Data: c.BlockTime}
	}
	stubs["(github.com/cosmos/cosmos-sdk/types.Context).KVStore"] = func(e *Exec, fn *ssa.Function, args []Value) Value {
		return e.ctxKVStore(args[0], args[1])
	}
	stubs["(github.com/cosmos/cosmos-sdk/types.Context).EventManager"] = func(e *Exec, fn *ssa.Function, args []Value) Value {
		o := e.newObj(nil, Opaque{Kind: "eventmgr"})
		return Ptr{Obj: o}
	}
	stubs["(*github.com/cosmos/cosmos-sdk/types.EventManager).EmitTypedEvent"] = func(e *Exec, fn *ssa.Function, args []Value) Value {
		ev := args[1].(Iface)
		e.path.events = append(e.path.events, "event:"+typeString(ev.Typ))
		e.recordEvent(ev)
		return nilErr()
	}
	stubs["(*github.com/cosmos/cosmos-sdk/types.EventManager).EmitEvent"] = func(e *Exec, fn *ssa.Function, args []Value) Value {
		return nil
	}
	stubs["(github.com/cosmos/cosmos-sdk/types.Context).Logger"] = func(e *Exec, fn *ssa.Function, args []Value) Value {
		return Iface{Typ: fn.Signature.Results().At(0).Type(), Val: Opaque{Kind: "logger"}}
	}
	stubs["(time.Time).UnixNano"] = func(e *Exec, fn *ssa.Function, args []Value) Value {
		return args[0].(Opaque).Data.(*smt.Term)
	}
	stubs["(time.Time).IsZero"] = func(e *Exec, fn *ssa.Function, args []Value) Value {
		return smt.Eq(args[0].(Opaque).Data.(*smt.Term), c0)
	}
	stubs["(time.Time).UTC"] = func(e *Exec, fn *ssa.Function, args []Value) Value {
		return Opaque{Kind: "time", Data: args[0].(Opaque).Data}
	}
	stubs["(time.Time).Equal"] = func(e *Exec, fn *ssa.Function, args []Value) Value {
		return smt.Eq(args[0].(Opaque).Data.(*smt.Term), args[1].(Opaque).Data.(*smt.Term))
	}
	stubs["time.Now"] = func(e *Exec, fn *ssa.Function, args []Value) Value {
		e.Notes["time.Now called: fresh nondeterministic clock value (non-determinism hazard)"] = true
		e.path.events = append(e.path.events, "nondeterminism:time.Now")
		return Opaque{Kind: "time", Data: e.freshEnv("timenow", smt.BV64)}
	}

	// ---- store ----
	stubs["github.com/cosmos/cosmos-sdk/store/prefix.NewStore"] = func(e *Exec, fn *ssa.Function, args []Value) Value {
		return e.prefixStore(args[0], args[1])
	}
	for _, m := range []string{"Get", "Set", "Has", "Delete", "Iterator", "ReverseIterator"} {
		m := m
		stubs["(github.com/cosmos/cosmos-sdk/store/prefix.Store)."+m] = func(e *Exec, fn *ssa.Function, args []Value) Value {
			return e.storeMethod(args[0].(Opaque), m, args[1:])
		}
	}

	// ---- regexp ----
	stubs["regexp.MustCompile"] = func(e *Exec, fn *ssa.Function, args []Value) Value {
		pat := e.mustConstString(args[0], "regexp pattern")
		o := e.newObj(nil, Opaque{Kind: "regexp", Data: pat})
		return Ptr{Obj: o}
	}
	stubs["regexp.Compile"] = func(e *Exec, fn *ssa.Function, args []Value) Value {
		pat := e.mustConstString(args[0], "regexp pattern")
		if _, err := regexp.Compile(pat); err != nil {
			return Tuple{Ptr{}, e.newErr("regexp.Compile")}
		}
		o := e.newObj(nil, Opaque{Kind: "regexp", Data: pat})
		return Tuple{Ptr{Obj: o}, nilErr()}
	}
	stubs["(*regexp.Regexp).MatchString"] = func(e *Exec, fn *ssa.Function, args []Value) Value {
		pat := e.load(args[0]).(Opaque).Data.(string)
		return e.regexMatch(pat, args[1].(Str))
	}
	stubs["regexp.MatchString"] = func(e *Exec, fn *ssa.Function, args []Value) Value {
		pat := e.mustConstString(args[0], "regexp pattern")
		return Tuple{e.regexMatch(pat, args[1].(Str)), nilErr()}
	}
}

// freshEnv creates an environment symbol; in two-run mode each run gets its own.
func (e *Exec) freshEnv(prefix string, s smt.Sort) *smt.Term {
	return e.fresh(prefix, s)
}

func (e *Exec) opaqueString(tag string) Str {
	t := e.fresh("ostr:"+tag, smt.StrS)
	return Str{Fn: FnAtom{t}, Off: c0, Len: strlenOf(t)}
}

// atomOfView names an arbitrary view as an atom: a fresh atom constrained to
// have the same length; byte-level agreement is instantiated on demand via
// viewEq registration.
func (e *Exec) atomOfView(v view) *smt.Term {
	key := fmt.Sprintf("atomview:%p:%d:%d", v.Fn, v.Off.ID(), v.Len.ID())
	if a, ok := v.Fn.(FnArr); ok {
		key = fmt.Sprintf("atomview:arr%d:%d:%d", a.A.ID(), v.Off.ID(), v.Len.ID())
	}
	if t, ok := e.path.extra[key].(*smt.Term); ok {
		return t
	}
	t := e.fresh("vatom", smt.StrS)
	e.addAxiom(smt.Eq(strlenOf(t), v.Len))
	av := view{FnAtom{t}, c0, v.Len}
	if m, ok := e.smallMax(v.Len, v.Len); ok {
		// bounded: the atom's bytes are pinned exactly
		var cs []*smt.Term
		for i := 0; i < m; i++ {
			cs = append(cs, smt.Implies(smt.ULt(c64(i), v.Len), smt.Eq(av.at(c64(i)), v.at(c64(i)))))
		}
		e.addAxiom(smt.And(cs...))
	} else {
		// register as an assumed equality for targeted instantiation
		e.path.eqs = append(e.path.eqs, eqRecord{eq: smt.True, a: av, b: v})
	}
	e.path.extra[key] = t
	e.viewAtoms = append(e.viewAtoms, viewAtom{t, v})
	return t
}

type viewAtom struct {
	t *smt.Term
	v view
}

type joinRec struct {
	out   Str
	parts []Str
}

func (e *Exec) bech32Enc(b *smt.Term) *smt.Term {
	s := smt.UF("bech32enc", "(Str) Str", smt.StrS, b)
	key := fmt.Sprintf("bech32enc:%d", b.ID())
	if _, done := e.path.extra[key]; !done {
		e.path.extra[key] = true
		// dec(enc(b)) = b and ok(enc(b)) for 1 <= len(b) <= 255
		valid := smt.And(smt.ULe(c1, strlenOf(b)), smt.ULe(strlenOf(b), c64(255)))
		e.addAxiom(smt.Implies(valid, smt.And(
			smt.UF("bech32ok", "(Str) Bool", smt.Bool, s),
			smt.Eq(smt.UF("bech32dec", "(Str) Str", smt.StrS, s), b))))
		e.addAxiom(smt.And(smt.ULe(c64(8), strlenOf(s)), smt.ULe(strlenOf(s), c64(1023))))
		e.Notes["stub bech32: AccAddressFromBech32/AccAddress.String as uninterpreted pair dec/enc with dec(enc(b))=b, ok(enc(b)) for 1<=len(b)<=255; dec not assumed injective"] = true
		e.bech32Atoms = append(e.bech32Atoms, s)
	}
	return s
}

func stubAccFromBech32(e *Exec, fn *ssa.Function, args []Value) Value {
	s := args[0].(Str)
	sv := strView(s)
	if sv.Len.IsConst() && sv.Len.Val == 0 {
		return Tuple{Bytes{Nil: true, Off: c0, Len: c0, Cap: c0}, e.newErr("empty address string is not allowed")}
	}
	if cs, isC := sv.concrete(); isC {
		// literal address: decided concretely (account prefix "panacea", as the app configures)
		hrp, data, okL := bech32DecodeLiteral(cs)
		if !okL || hrp != "panacea" || len(data) == 0 || len(data) > 255 {
			return Tuple{Bytes{Nil: true, Off: c0, Len: c0, Cap: c0}, e.newErr("bech32 (literal)")}
		}
		buf := e.newBuf(FnConst{string(data)}, c64(len(data)))
		return Tuple{Bytes{Buf: buf, Off: c0, Len: c64(len(data)), Cap: c64(len(data))}, nilErr()}
	}
	t, ok := sv.wholeAtom()
	if !ok {
		t = e.atomOfView(sv)
	}
	okT := smt.UF("bech32ok", "(Str) Bool", smt.Bool, t)
	e.addAxiom(smt.Implies(smt.Eq(strlenOf(t), c0), smt.Not(okT)))
	if e.branch(okT) {
		d := smt.UF("bech32dec", "(Str) Str", smt.StrS, t)
		e.addAxiom(smt.And(smt.ULe(c1, strlenOf(d)), smt.ULe(strlenOf(d), c64(255))))
		buf := e.newBuf(FnAtom{d}, strlenOf(d))
		return Tuple{Bytes{Buf: buf, Off: c0, Len: strlenOf(d), Cap: strlenOf(d)}, nilErr()}
	}
	return Tuple{Bytes{Nil: true, Off: c0, Len: c0, Cap: c0}, e.newErr("bech32")}
}

// literalAtom gives a concrete string an atom identity with pinned bytes.
func (e *Exec) literalAtom(s string) *smt.Term {
	t := smt.Var("lit:"+s, smt.StrS)
	key := "lit:" + s
	if _, ok := e.path.extra[key]; !ok {
		e.path.extra[key] = true
		cs := []*smt.Term{smt.Eq(strlenOf(t), c64(len(s)))}
		if len(s) <= 128 {
			for i := 0; i < len(s); i++ {
				cs = append(cs, smt.Eq(FnAtom{t}.Read(c64(i)), smt.Const(uint64(s[i]), 8)))
			}
		}
		e.addAxiom(smt.And(cs...))
		e.registerAtom(t)
	}
	return t
}

func stubSprintf(e *Exec, fn *ssa.Function, args []Value) Value {
	format, ok := e.goString(args[0])
	if !ok {
		return e.opaqueString("sprintf")
	}
	va := args[1].(Slice)
	var vals []Value
	for i := 0; i < va.Len; i++ {
		vals = append(vals, va.Arr.Val.(*Array).Elems[va.Off+i])
	}
	// supported: literal text with %s / %v of string arguments; %d of concrete ints
	out := constStr("")
	ai := 0
	lit := ""
	flush := func() {
		if lit != "" {
			out = e.concat(out, constStr(lit))
			lit = ""
		}
	}
	for i := 0; i < len(format); i++ {
		c := format[i]
		if c != '%' {
			lit += string(c)
			continue
		}
		i++
		if i >= len(format) {
			return e.opaqueString("sprintf")
		}
		switch format[i] {
		case '%':
			lit += "%"
		case 's', 'v':
			if ai >= len(vals) {
				return e.opaqueString("sprintf")
			}
			iv, _ := vals[ai].(Iface)
			ai++
			s, isStr := iv.Val.(Str)
			if !isStr {
				return e.opaqueString("sprintf")
			}
			flush()
			out = e.concat(out, s)
		case 'd':
			if ai >= len(vals) {
				return e.opaqueString("sprintf")
			}
			iv, _ := vals[ai].(Iface)
			ai++
			t, isT := iv.Val.(*smt.Term)
			if !isT || !t.IsConst() {
				return e.opaqueString("sprintf")
			}
			lit += fmt.Sprintf("%d", t.SVal())
		default:
			return e.opaqueString("sprintf")
		}
	}
	flush()
	return out
}

func stubSplit(e *Exec, fn *ssa.Function, args []Value) Value {
	s := args[0].(Str)
	sep := args[1].(Str)
	// only the inverse of a Builder join with the same separator is modelled
	for _, j := range e.joins {
		if j.out.Len == s.Len && sameStr(j.out, s) {
			var parts []Str
			sepOK := true
			for i, p := range j.parts {
				if i%2 == 1 {
					if e.viewEq(strView(p), strView(sep)) != smt.True {
						sepOK = false
					}
					continue
				}
				parts = append(parts, p)
			}
			if sepOK {
				// side condition: no part contains the separator. For parts produced by the
				// bech32 / decimal stubs this is their documented alphabet (contract); for
				// every other part it is a proof obligation decided here.
				sepS, okSep := strView(sep).concrete()
				if !okSep || len(sepS) != 1 {
					panic(engineErr("strings.Split: separator must be one concrete byte"))
				}
				for _, p := range parts {
					if t, ok := strView(p).wholeAtom(); ok && (containsTerm(e.bech32Atoms, t) || containsTerm(e.digitAtoms, t)) {
						e.Notes["stub contract: bech32 strings use [a-z0-9] and decimal strings use [0-9]; neither contains the genesis key separator"] = true
						continue
					}
					k := e.fresh("splitk", smt.BV64)
					e.check(smt.Not(smt.And(smt.ULt(k, p.Len), smt.Eq(strView(p).at(k), smt.Const(uint64(sepS[0]), 8)))),
						"string form: no key part contains the separator (else split does not invert join)")
				}
				e.Notes["stub strings.Split: inverse of the strings.Builder join; the side condition (no part contains the separator) is a checked obligation"] = true
				return e.strSlice(parts)
			}
		}
	}
	panic(engineErr("strings.Split on a value that is not a modelled join"))
}

type splitOb struct{ part, sep Str }

func containsTerm(l []*smt.Term, t *smt.Term) bool {
	for _, x := range l {
		if x == t {
			return true
		}
	}
	return false
}

func sameStr(a, b Str) bool {
	return a.Fn == b.Fn && a.Off == b.Off && a.Len == b.Len
}

func (e *Exec) strSlice(parts []Str) Value {
	es := make([]Value, len(parts))
	for i, p := range parts {
		es[i] = p
	}
	arr := e.newObj(types.NewArray(types.Typ[types.String], int64(len(es))), &Array{Elems: es})
	return Slice{Arr: arr, Off: 0, Len: len(es), Cap: len(es)}
}

// libPattern: method-name based stubs (codec, proto Marshal ...).
func (e *Exec) libPattern(fn *ssa.Function, name string, args []Value) (Value, bool) {
	if v, ok := e.codecPattern(fn, name, args); ok {
		return v, true
	}
	if v, ok := e.ibcPattern(fn, name); ok {
		return v, true
	}
	if strings.HasPrefix(name, "(github.com/cometbft/cometbft/libs/log.") {
		return nil, true
	}
	if strings.HasPrefix(name, "github.com/cosmos/cosmos-sdk/telemetry.") || strings.HasPrefix(name, "github.com/armon/go-metrics.") {
		e.Notes["telemetry calls have empty bodies (metrics are not chain state)"] = true
		res := fn.Signature.Results()
		switch res.Len() {
		case 0:
			return nil, true
		case 1:
			return e.zero(res.At(0).Type()), true
		}
		t := make(Tuple, res.Len())
		for i := range t {
			t[i] = e.zero(res.At(i).Type())
		}
		return t, true
	}
	for _, pfx := range []string{"math/rand.", "(*math/rand.", "crypto/rand.", "github.com/google/uuid.", "github.com/pborman/uuid.", "os.Getenv", "os.Hostname", "os.Getpid", "runtime.NumCPU", "runtime.GOMAXPROCS"} {
		if strings.HasPrefix(name, pfx) {
			e.Notes["nondeterministic environment call "+name+": fresh value per call (non-determinism hazard)"] = true
			e.path.events = append(e.path.events, "nondeterminism:"+name)
			res := fn.Signature.Results()
			mk := func(t types.Type) Value {
				if w, _, ok := intWidth(t); ok {
					return e.freshEnv("env", smt.BV(w))
				}
				if isString(t) {
					return e.opaqueString("env")
				}
				return e.zero(t)
			}
			switch res.Len() {
			case 0:
				return nil, true
			case 1:
				return mk(res.At(0).Type()), true
			}
			t := make(Tuple, res.Len())
			for i := range t {
				t[i] = mk(res.At(i).Type())
			}
			return t, true
		}
	}
	return nil, false
}

// opaqueMethod: interface method calls on opaque values.
func (e *Exec) opaqueMethod(o Opaque, recv Iface, method string, args []Value) (Value, bool) {
	switch o.Kind {
	case "error":
		if method == "Error" {
			return e.opaqueString("errtext"), true
		}
	case "logger":
		switch method {
		case "With":
			return recv, true
		case "Info", "Error", "Debug":
			return nil, true
		}
	case "store":
		return e.storeMethod(o, method, args), true
	case "iter":
		return e.iterMethod(o, method, args), true
	case "codec":
		return e.codecMethod(o, method, args), true
	case "bank":
		return e.bankMethod(o, method, args), true
	case "hash", "stream", "cipherblock":
		if v, ok := e.hashMethod(o, method, args); ok {
			return v, true
		}
	case "feetx":
		if v, ok := e.feeTxMethod(o, method); ok {
			return v, true
		}
		panic(engineErr("method %s on the modelled FeeTx", method))
	case "configurator":
		// module.Configurator: the gRPC servers accept any registration; migrations are recorded
		switch method {
		case "MsgServer", "QueryServer":
			return Iface{Typ: storeMarkerType, Val: Opaque{Kind: "grpcserver"}}, true
		case "RegisterMigration":
			mod, ok := strView(args[0].(Str)).concrete()
			from, ok2 := args[1].(*smt.Term)
			if !ok || !ok2 || !from.IsConst() {
				panic(engineErr("RegisterMigration with a non-constant module name or version"))
			}
			if from.Val == 0 {
				return e.newErr("module migration versions should start at 1"), true
			}
			ev := fmt.Sprintf("migration:%s:%d", mod, from.Val)
			for _, x := range e.path.events {
				if x == ev {
					return e.newErr("another migration for this module and version is already registered"), true
				}
			}
			e.path.events = append(e.path.events, ev)
			e.Notes["stub module.Configurator: RegisterMigration records (module, fromVersion) and refuses version 0 and duplicates, as the SDK configurator does; gRPC registration is a no-op"] = true
			return nilErr(), true
		}
	case "grpcserver":
		if method == "RegisterService" {
			return nil, true
		}
	case "stubobj":
		panic(engineErr("method %s on opaque stub object %v", method, o.Data))
	}
	return nil, false
}

func init() {
	extraIntrinsics["vConfigurator"] = func(e *Exec, fn *ssa.Function, args []Value) Value {
		return Iface{Typ: storeMarkerType, Val: Opaque{Kind: "configurator"}}
	}
	// vMigrationRegistered(module, fromVersion): did RegisterServices register that migration?
	extraIntrinsics["vMigrationRegistered"] = func(e *Exec, fn *ssa.Function, args []Value) Value {
		mod := e.mustConstString(args[0], "module name")
		from, ok := args[1].(*smt.Term)
		if !ok || !from.IsConst() {
			panic(engineErr("vMigrationRegistered: version must be concrete"))
		}
		ev := fmt.Sprintf("migration:%s:%d", mod, from.Val)
		for _, x := range e.path.events {
			if x == ev {
				return smt.True
			}
		}
		return smt.False
	}
	// vMigrationCount(module): number of migrations registered for the module
	extraIntrinsics["vMigrationCount"] = func(e *Exec, fn *ssa.Function, args []Value) Value {
		mod := e.mustConstString(args[0], "module name")
		n := 0
		for _, x := range e.path.events {
			if strings.HasPrefix(x, "migration:"+mod+":") {
				n++
			}
		}
		return c64(n)
	}
}

func (e *Exec) callStubByName(name string, recv Value, args []Value, c *ssa.CallCommon) Value {
	if name == "cachewrite" {
		// the write function of Context.CacheContext: the branch becomes the parent's state
		cd := recv.(Opaque).Data.(*CtxData)
		if cd.Bank != nil {
			if cd.Parent != nil && cd.Parent.Bank != nil {
				*cd.Parent.Bank = *cd.Bank
			} else if e.path.bank != nil {
				*e.path.bank = *cd.Bank
			}
		}
		e.path.events = append(e.path.events, "cache-write")
		return nil
	}
	panic(engineErr("callStubByName %s", name))
}

func init() {
	stubs["(github.com/cosmos/cosmos-sdk/types.Context).CacheContext"] = func(e *Exec, fn *ssa.Function, args []Value) Value {
		co, ok := args[0].(Opaque)
		cd, ok2 := co.Data.(*CtxData)
		if !ok || !ok2 || cd == nil {
			panic(engineErr("CacheContext of an unmodelled context"))
		}
		child := &CtxData{BlockTime: cd.BlockTime, BlockHeight: cd.BlockHeight, Name: cd.Name, Parent: cd, Cached: true}
		if e.path.bank != nil {
			child.Bank = e.bankFor(args[0]).clone()
		}
		e.Notes["Context.CacheContext: the bank state is branched and reaches the parent only through the returned write function; KV stores behind a cache context are not modelled"] = true
		cctx := Opaque{Kind: "ctx", Data: child}
		return Tuple{cctx, &Func{Stub: "cachewrite", Recv: cctx}}
	}
}

func (e *Exec) recordEvent(ev Iface) {}

func init() {
	// query.Paginate / FilteredPaginate are executed from their real SDK source (limit / offset /
	// count_total / reverse); only the iterator constructor is modelled. Key-based paging
	// (PageRequest.Key) needs byte-lexicographic seeks and is not modelled.
	execFuncs["github.com/cosmos/cosmos-sdk/types/query.Paginate"] = true
	execFuncs["github.com/cosmos/cosmos-sdk/types/query.FilteredPaginate"] = true
	stubs["github.com/cosmos/cosmos-sdk/types/query.getIterator"] = func(e *Exec, fn *ssa.Function, args []Value) Value {
		ref := e.storeRefOf(args[0])
		start := args[1].(Bytes)
		keyed := !(start.Nil || (start.Len.IsConst() && start.Len.Val == 0))
		it := e.makeIter(ref, nil).(Iface)
		d := it.Val.(Opaque).Data.(*iterData)
		rev := args[2].(*smt.Term)
		isRev := e.branch(rev)
		if isRev {
			for i, j := 0, len(d.entries)-1; i < j; i, j = i+1, j-1 {
				d.entries[i], d.entries[j] = d.entries[j], d.entries[i]
			}
		}
		if keyed {
			// key-based paging: the iteration resumes at the entry whose key is PageRequest.Key
			// (inclusive, in the requested direction). Only keys of existing entries are modelled -
			// that is what a client obtains as next_key; the iteration order is the run's order.
			items := e.keyItems(start)
			at := -1
			for i, en := range d.entries {
				_, rest := e.keyHasPrefix(en.Key, ref.Prefix)
				if e.branch(e.keyEqTerm(rest, items)) {
					at = i
					break
				}
			}
			if at < 0 {
				panic(engineErr("key-based pagination with a key that is not the key of an existing entry (seek between keys needs the lexicographic order: not modelled)"))
			}
			if at == 0 && isRev {
				// cosmos-sdk v0.47.12 getIterator, reverse with a start key: it opens a forward iterator
				// at the key, steps once and reads Key() to find the exclusive end - when the key is the
				// last one of the listing the iterator is exhausted and the prefix store's Key() panics
				e.goPanicf("prefixIterator invalid, cannot call Key()")
			}
			d.entries = d.entries[at:]
		}
		e.Notes["query.Paginate/FilteredPaginate executed from SDK source over the symbolic store (offset, limit, count_total, reverse, and key-based continuation from the key of an existing entry)"] = true
		return it
	}
}

func init() {
	stubs["github.com/cosmos/cosmos-sdk/internal/conv.UnsafeStrToBytes"] = func(e *Exec, fn *ssa.Function, args []Value) Value {
		return e.convert(args[0], types.Typ[types.String], types.NewSlice(types.Typ[types.Byte]))
	}
	stubs["github.com/cosmos/cosmos-sdk/internal/conv.UnsafeBytesToStr"] = func(e *Exec, fn *ssa.Function, args []Value) Value {
		return e.convert(args[0], types.NewSlice(types.Typ[types.Byte]), types.Typ[types.String])
	}
	stubs["github.com/cosmos/cosmos-sdk/types.KVStorePrefixIterator"] = func(e *Exec, fn *ssa.Function, args []Value) Value {
		ref := e.storeRefOf(args[0])
		return e.makeIter(ref, e.keyItems(args[1].(Bytes)))
	}
	stubs["github.com/cosmos/cosmos-sdk/types.KVStoreReversePrefixIterator"] = stubs["github.com/cosmos/cosmos-sdk/types.KVStorePrefixIterator"]
	extraIntrinsics["vSetAddrMax"] = func(e *Exec, fn *ssa.Function, args []Value) Value {
		e.path.extra["addrMax"] = e.mustConstInt(args[0], "address length bound")
		return nil
	}
}

func init() {
	stubs["strings.IndexByte"] = func(e *Exec, fn *ssa.Function, args []Value) Value {
		sv := strView(args[0].(Str))
		b := args[1].(*smt.Term)
		M, ok := e.feasibleMax(sv.Len)
		if !ok {
			panic(engineErr("strings.IndexByte on a string of unbounded length"))
		}
		res := smt.Const(^uint64(0), 64) // -1
		for j := M - 1; j >= 0; j-- {
			found := smt.And(smt.ULt(c64(j), sv.Len), smt.Eq(sv.at(c64(j)), b))
			res = smt.Ite(found, c64(j), res)
		}
		return res
	}
}

func init() {
	// strings.EqualFold on bounded strings: equal lengths and bytewise equality after ASCII case
	// folding (non-ASCII simple folding is not modelled: such bytes must be equal)
	stubs["strings.EqualFold"] = func(e *Exec, fn *ssa.Function, args []Value) Value {
		a, b := strView(args[0].(Str)), strView(args[1].(Str))
		m, ok := e.smallMax(a.Len, b.Len)
		if !ok {
			panic(engineErr("strings.EqualFold on strings of unbounded length"))
		}
		fold := func(c *smt.Term) *smt.Term {
			up := smt.And(smt.UGe(c, smt.Const('A', 8)), smt.ULe(c, smt.Const('Z', 8)))
			return smt.Ite(up, smt.Add(c, smt.Const(32, 8)), c)
		}
		cs := []*smt.Term{smt.Eq(a.Len, b.Len)}
		for i := 0; i < m; i++ {
			cs = append(cs, smt.Implies(smt.ULt(c64(i), a.Len), smt.Eq(fold(a.at(c64(i))), fold(b.at(c64(i))))))
		}
		e.Notes["stub strings.EqualFold: ASCII case folding only"] = true
		return smt.And(cs...)
	}
	stubs["strings.ToLower"] = func(e *Exec, fn *ssa.Function, args []Value) Value {
		panic(engineErr("strings.ToLower not modelled"))
	}
}

func init() {
	// vNondetText(site, max): a string of symbolic byte length L <= max and symbolic rune count R
	// with R <= L <= 4R (every such pair is realisable by a valid UTF-8 string); contents are opaque.
	extraIntrinsics["vNondetText"] = func(e *Exec, fn *ssa.Function, args []Value) Value {
		site := e.siteKey(e.mustConstString(args[0], "nondet site"))
		max := e.mustConstInt(args[1], "max length")
		L := smt.Var("in:"+site+".len", smt.BV64)
		R := smt.Var("in:"+site+".runes", smt.BV64)
		e.addSite(NondetSite{Key: site + ".len", Kind: "u64", Term: L})
		e.addSite(NondetSite{Key: site + ".runes", Kind: "u64", Term: R})
		e.assume(smt.And(smt.ULe(L, c64(max)), smt.ULe(R, L), smt.ULe(L, smt.Mul(R, c64(4)))))
		t := smt.Var("text:"+site, smt.StrS)
		e.assume(smt.Eq(strlenOf(t), L))
		texts, _ := e.path.extra["texts"].(map[*smt.Term]*smt.Term)
		if texts == nil {
			texts = map[*smt.Term]*smt.Term{}
			e.path.extra["texts"] = texts
		}
		texts[t] = R
		return Str{Fn: FnAtom{t}, Off: c0, Len: strlenOf(t)}
	}
	runeCount := func(e *Exec, fn *ssa.Function, args []Value) Value {
		var sv view
		switch x := args[0].(type) {
		case Str:
			sv = strView(x)
		case Bytes:
			sv = bytesView(x)
		}
		if cs, ok := sv.concrete(); ok {
			return c64(len([]rune(cs)))
		}
		if t, ok := sv.wholeAtom(); ok {
			if texts, _ := e.path.extra["texts"].(map[*smt.Term]*smt.Term); texts != nil {
				if r, ok := texts[t]; ok {
					return r
				}
			}
		}
		panic(engineErr("utf8.RuneCount on a string that is not a vNondetText value"))
	}
	stubs["unicode/utf8.RuneCountInString"] = runeCount
	stubs["unicode/utf8.RuneCount"] = runeCount
}

func init() {
	// Paginate / FilteredPaginate with no explicit limit apply query.DefaultLimit (a constant, 100):
	// recorded as an event so that code which must enumerate *everything* (genesis export, filtered
	// complete listings) can be checked not to depend on it. The real function is then executed.
	for _, name := range []string{"github.com/cosmos/cosmos-sdk/types/query.Paginate", "github.com/cosmos/cosmos-sdk/types/query.FilteredPaginate"} {
		stubs[name] = func(e *Exec, fn *ssa.Function, args []Value) Value {
			defaulted := false
			if p, ok := args[1].(Ptr); ok {
				if p.Obj == nil {
					defaulted = true
				} else if st, ok := getPath(p.Obj.Val, p.Path).(*Struct); ok && len(st.Fields) >= 3 {
					if lim, ok := st.Fields[2].(*smt.Term); ok && e.branch(smt.Eq(lim, c0)) {
						defaulted = true
					}
				}
			}
			if defaulted {
				e.path.events = append(e.path.events, "pagination:default-limit")
			}
			if fn.Pkg != nil {
				fn.Pkg.Build()
			}
			return e.callFunction(fn, args, nil)
		}
	}
}

func init() {
	// vRecord*(label, value): translator validation on concrete vectors. The value computed by the
	// interpreter must be concrete; it becomes part of a reachability-witness label, and the native
	// twin builds the label from the value the real code computes - the replay is concordant only
	// if both agree.
	rec := func(e *Exec, args []Value, val string) Value {
		e.cover("rec:" + e.mustConstString(args[0], "record label") + "=" + val)
		return nil
	}
	extraIntrinsics["vRecordBool"] = func(e *Exec, fn *ssa.Function, args []Value) Value {
		t := args[1].(*smt.Term)
		if e.branch(t) {
			return rec(e, args, "true")
		}
		return rec(e, args, "false")
	}
	extraIntrinsics["vRecordU64"] = func(e *Exec, fn *ssa.Function, args []Value) Value {
		t := args[1].(*smt.Term)
		if !t.IsConst() {
			panic(engineErr("vRecordU64: value is not concrete"))
		}
		return rec(e, args, fmt.Sprint(t.Val))
	}
	extraIntrinsics["vRecordString"] = func(e *Exec, fn *ssa.Function, args []Value) Value {
		s, ok := strView(args[1].(Str)).concrete()
		if !ok {
			panic(engineErr("vRecordString: value is not concrete"))
		}
		return rec(e, args, fmt.Sprintf("%x", s))
	}
	extraIntrinsics["vRecordBytes"] = func(e *Exec, fn *ssa.Function, args []Value) Value {
		s, ok := bytesView(args[1].(Bytes)).concrete()
		if !ok {
			panic(engineErr("vRecordBytes: value is not concrete"))
		}
		return rec(e, args, fmt.Sprintf("%x", s))
	}
}

func init() {
	// vAddrSpelling(site, addr): the address string itself, or (solver's choice) another valid
	// bech32 spelling of the same account - natively the all-upper-case form, which bech32 allows.
	extraIntrinsics["vAddrSpelling"] = func(e *Exec, fn *ssa.Function, args []Value) Value {
		site := e.siteKey(e.mustConstString(args[0], "nondet site"))
		addr := args[1].(Str)
		u := smt.Var("in:"+site+".upper", smt.Bool)
		e.addSite(NondetSite{Key: site + ".upper", Kind: "bool", Term: u})
		if !e.branch(u) {
			return addr
		}
		t, ok := strView(addr).wholeAtom()
		if !ok {
			t = e.atomOfView(strView(addr))
		}
		s := smt.Var("spelling:"+site, smt.StrS)
		dec := func(x *smt.Term) *smt.Term { return smt.UF("bech32dec", "(Str) Str", smt.StrS, x) }
		e.assume(smt.And(smt.UF("bech32ok", "(Str) Bool", smt.Bool, s), smt.Eq(dec(s), dec(t)), smt.Not(smt.Eq(s, t)),
			smt.Eq(strlenOf(s), strlenOf(t))))
		e.bech32Atoms = append(e.bech32Atoms, s)
		e.Notes["vAddrSpelling: a second valid bech32 spelling of the same account (natively: upper case)"] = true
		return Str{Fn: FnAtom{s}, Off: c0, Len: strlenOf(s)}
	}
}

func init() {
	// vRepeats(n): how often a harness repeats a call whose answer must not depend on Go's
	// randomised map iteration. Symbolically one repetition suffices (every iteration order of
	// every map range is a solver choice, independently per call); natively the order is random,
	// so the replay repeats n times to observe a differing order with probability 1 - 2^-n.
	extraIntrinsics["vRepeats"] = func(e *Exec, fn *ssa.Function, args []Value) Value {
		return c1
	}
}

func init() {
	// strings.Contains / strings.HasSuffix with a concrete needle over a string of bounded length
	stubs["strings.Contains"] = func(e *Exec, fn *ssa.Function, args []Value) Value {
		sv := strView(args[0].(Str))
		sub, ok := strView(args[1].(Str)).concrete()
		if !ok {
			panic(engineErr("strings.Contains with a non-constant substring"))
		}
		if cs, isC := sv.concrete(); isC {
			return smt.BoolConst(strings.Contains(cs, sub))
		}
		if sub == "" {
			return smt.True
		}
		M, okM := e.feasibleMax(sv.Len)
		if !okM {
			panic(engineErr("strings.Contains on a string of unbounded length"))
		}
		var alts []*smt.Term
		for i := 0; i+len(sub) <= M; i++ {
			cs := []*smt.Term{smt.ULe(c64(i+len(sub)), sv.Len)}
			for k := 0; k < len(sub); k++ {
				cs = append(cs, smt.Eq(sv.at(c64(i+k)), smt.Const(uint64(sub[k]), 8)))
			}
			alts = append(alts, smt.And(cs...))
		}
		return smt.Or(alts...)
	}
	stubs["strings.HasSuffix"] = func(e *Exec, fn *ssa.Function, args []Value) Value {
		sv := strView(args[0].(Str))
		sub, ok := strView(args[1].(Str)).concrete()
		if !ok {
			panic(engineErr("strings.HasSuffix with a non-constant suffix"))
		}
		if cs, isC := sv.concrete(); isC {
			return smt.BoolConst(strings.HasSuffix(cs, sub))
		}
		cs := []*smt.Term{smt.ULe(c64(len(sub)), sv.Len)}
		for k := 0; k < len(sub); k++ {
			cs = append(cs, smt.Eq(sv.at(smt.Add(smt.Sub(sv.Len, c64(len(sub))), c64(k))), smt.Const(uint64(sub[k]), 8)))
		}
		return smt.And(cs...)
	}
}

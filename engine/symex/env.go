package symex

import (
	"fmt"
	"go/types"
	"strings"

	"golang.org/x/tools/go/ssa"

	"verif/engine/smt"
)

// envIntrinsic builds the results of a harness function named vEnv*: contexts
// and keepers whose SDK dependencies are modelled objects.
func (e *Exec) envIntrinsic(fn *ssa.Function, args []Value) Value {
	res := fn.Signature.Results()
	out := make(Tuple, res.Len())
	for i := 0; i < res.Len(); i++ {
		out[i] = e.makeEnvValue(res.At(i).Type(), res.At(i).Name())
	}
	if len(out) == 1 {
		return out[0]
	}
	return out
}

func namedPath(t types.Type) string {
	if n, ok := t.(*types.Named); ok && n.Obj().Pkg() != nil {
		return n.Obj().Pkg().Path() + "." + n.Obj().Name()
	}
	if a, ok := t.(*types.Alias); ok {
		return namedPath(types.Unalias(a))
	}
	return ""
}

func (e *Exec) makeEnvValue(t types.Type, name string) Value {
	np := namedPath(t)
	switch {
	case np == "github.com/cosmos/cosmos-sdk/types.Context":
		site := e.siteKey("blocktime")
		bt := smt.Var("in:"+site, smt.BV64)
		e.addSite(NondetSite{Key: site, Kind: "i64", Term: bt})
		// block time is a plausible UnixNano (after 1970, before 2262)
		e.assume(smt.SGt(bt, c0))
		e.path.nextObj++
		return Opaque{Kind: "ctx", Data: &CtxData{BlockTime: bt, Name: fmt.Sprintf("%s@%d", site, e.path.nextObj)}}
	case strings.HasSuffix(np, "codec.Codec") || strings.HasSuffix(np, "codec.BinaryCodec") || strings.HasSuffix(np, "codec.JSONCodec"):
		return Iface{Typ: storeMarkerType, Val: Opaque{Kind: "codec", Data: "cdc"}}
	case strings.HasSuffix(np, "store/types.StoreKey"):
		return Iface{Typ: storeMarkerType, Val: Opaque{Kind: "storekey", Data: name}}
	case strings.HasSuffix(np, "BankKeeperI") || strings.HasSuffix(np, "nft.BankKeeper") || strings.HasSuffix(np, "BankKeeper"):
		return Iface{Typ: storeMarkerType, Val: Opaque{Kind: "bank", Data: "bank"}}
	case strings.HasSuffix(np, "AccountKeeper"):
		return Iface{Typ: storeMarkerType, Val: Opaque{Kind: "stubobj", Data: "accountkeeper"}}
	}
	switch u := t.Underlying().(type) {
	case *types.Map:
		return &MapObj{KT: u.Key(), VT: u.Elem(), Pre: true, Name: "keeper field " + name + " (map)"}
	case *types.Pointer:
		o := e.newObj(u.Elem(), e.makeEnvValue(u.Elem(), name))
		if name != "" {
			// memory reachable from a keeper outlives the call
			o.Pre = true
			o.Name = "keeper field " + name + " (pointee)"
		}
		return Ptr{Obj: o}
	case *types.Struct:
		fs := make([]Value, u.NumFields())
		for i := range fs {
			fs[i] = e.makeEnvValue(u.Field(i).Type(), u.Field(i).Name())
		}
		return &Struct{Fields: fs}
	}
	return e.zero(t)
}

func init() {
	const ck = "github.com/medibloc/panacea-core/v2/types/compkey."
	summaryStubs[ck+"Encode"] = func(e *Exec, fn *ssa.Function, args []Value) Value {
		b, err := e.compkeyEncode(args[0], -1)
		return Tuple{b, err}
	}
	summaryStubs[ck+"MustEncode"] = func(e *Exec, fn *ssa.Function, args []Value) Value {
		b, err := e.compkeyEncode(args[0], -1)
		if !isNilIface(err) {
			panic(goPanic{msg: "explicit panic: MustEncode: the size of value must be in uint8", value: err})
		}
		return b
	}
	summaryStubs[ck+"PartialEncode"] = func(e *Exec, fn *ssa.Function, args []Value) Value {
		n := e.mustConstInt(args[1], "PartialEncode numValues")
		b, err := e.compkeyEncode(args[0], n)
		return Tuple{b, err}
	}
	summaryStubs[ck+"MustPartialEncode"] = func(e *Exec, fn *ssa.Function, args []Value) Value {
		n := e.mustConstInt(args[1], "PartialEncode numValues")
		b, err := e.compkeyEncode(args[0], n)
		if !isNilIface(err) {
			panic(goPanic{msg: "explicit panic: MustPartialEncode", value: err})
		}
		return b
	}
	summaryStubs[ck+"Decode"] = func(e *Exec, fn *ssa.Function, args []Value) Value {
		b := args[0].(Bytes)
		if b.Segs == nil && !(b.Len.IsConst() && b.Len.Val == 0) {
			// not a structured key: run the real decoder
			return e.callFunction(fn, args, nil)
		}
		for _, it := range b.Segs {
			if !it.Comp {
				return e.callFunction(fn, args, nil)
			}
		}
		es := make([]Value, len(b.Segs))
		for i, it := range b.Segs {
			buf := e.newBuf(it.V.normalized(), it.V.Len)
			if _, ok := it.V.wholeAtom(); ok {
				buf.Fn = it.V.Fn
			}
			es[i] = Bytes{Buf: buf, Off: c0, Len: it.V.Len, Cap: it.V.Len}
		}
		bt := types.NewSlice(types.Typ[types.Byte])
		arr := e.newObj(types.NewArray(bt, int64(len(es))), &Array{Elems: es})
		vals := Slice{Arr: arr, Off: 0, Len: len(es), Cap: len(es)}
		out := args[1].(Iface)
		m := lookupMethod(e, out, "FromByteSlices")
		return e.callFn(m, []Value{out.Val, vals}, nil, nil)
	}
}

var summaryStubs = map[string]stubFn{}

func lookupMethod(e *Exec, recv Iface, name string) *ssa.Function {
	ms := e.P.Prog.MethodSets.MethodSet(recv.Typ)
	for i := 0; i < ms.Len(); i++ {
		if ms.At(i).Obj().Name() == name {
			return e.P.Prog.MethodValue(ms.At(i))
		}
	}
	panic(engineErr("method %s not found on %s", name, typeString(recv.Typ)))
}

// compkeyEncode is the C18-justified summary of compkey.Encode/PartialEncode:
// the result is the structured key [comp_1, ..., comp_n] (injective and
// prefix-exact on tuples whose components are <= 255 bytes); oversize
// components produce the error, as the real code does.
func (e *Exec) compkeyEncode(key Value, n int) (Value, Value) {
	k := key.(Iface)
	if k.Typ == nil {
		e.goPanicf("nil pointer dereference (Encode(nil))")
	}
	m := lookupMethod(e, k, "ByteSlices")
	vals := e.callFn(m, []Value{k.Val}, nil, nil).(Slice)
	cnt := vals.Len
	if n >= 0 {
		if cnt < n {
			return Bytes{Nil: true, Off: c0, Len: c0, Cap: c0}, e.newErr("invalid num of values")
		}
		cnt = n
	}
	var items []KItem
	for i := 0; i < cnt; i++ {
		b := vals.Arr.Val.(*Array).Elems[vals.Off+i].(Bytes)
		if e.branch(smt.UGt(b.Len, c64(255))) {
			return Bytes{Nil: true, Off: c0, Len: c0, Cap: c0}, e.newErr("the size of value must be in uint8")
		}
		items = append(items, KItem{Comp: true, V: bytesView(b)})
	}
	e.Notes["summary compkey.Encode/PartialEncode/Decode: structured key over the component tuple, injective and prefix-exact (lemma C18, checked at byte level in the same run); oversize components return the error"] = true
	v := e.flatten(items)
	buf := e.newBuf(v.Fn, v.Len)
	out := Bytes{Buf: buf, Off: c0, Len: v.Len, Cap: v.Len, Segs: items}
	if len(items) == 0 {
		out.Segs = []KItem{}
	}
	return out, nilErr()
}
